// ---------------------------------------------------------------------------------
// specs/_shared/watchers_contract.rs — the contract of `Watchers` (batcher/src/lib.rs:707-750), stated once.
//
// PROVED for the real text of `struct Watchers` / `impl Default for Watchers` / `impl Watchers` by
// batcher_watchers.vx (any number of watchers); ASSUMED, with the same clauses, by the opaque `Watchers`
// mirrors of batcher_receiver.vx and _shared/batcher_types.rs (batcher_sender.vx).
//
// Spec-only, needs nothing but `use vstd::prelude::*;`. A watcher (boxed callback) is known by a ghost `int`;
// a `Watchers` value is known by the two sequences of ids it holds, in registration order. Every clause takes
// the list it is about first (`list`) and the other list second (`other`): the frame is part of the clause.
// ---------------------------------------------------------------------------------

/// `Watchers::new()` / `Default::default()`: no watcher in either list.
pub open spec fn watchers_empty(on_take: Seq<int>, on_flush: Seq<int>) -> bool {
    on_take.len() == 0 && on_flush.len() == 0
}

/// `push_on_flush(w)` / `push_on_take(w)`: exactly `w` is appended to exactly the list named by the method
/// (`list0 -> list1`), the other list (`other0 -> other1`) is unchanged.
pub open spec fn watchers_pushed(list0: Seq<int>, other0: Seq<int>, w: int, list1: Seq<int>, other1: Seq<int>) -> bool {
    list1 =~= list0.push(w) && other1 =~= other0
}

/// `notify_on_flush()` / `notify_on_take()`, the state: the list named by the method is left EMPTY, the other list
/// is untouched. Holds whichever callbacks panic: the method returns normally.
pub open spec fn watchers_notified(list0: Seq<int>, other0: Seq<int>, list1: Seq<int>, other1: Seq<int>) -> bool {
    list1.len() == 0 && other1 =~= other0
}

/// `notify_on_*()`, the calls: the call log (one entry `(id, panicked)` per invocation of a callback) grew by
/// exactly the ids of the old list, in order — every callback of the list is invoked exactly once and no other
/// callback is invoked, whatever the `panicked` flags are (a panic of callback k neither stops k+1.. nor escapes).
pub open spec fn watchers_called(calls0: Seq<(int, bool)>, calls1: Seq<(int, bool)>, list0: Seq<int>) -> bool {
    &&& calls1.len() == calls0.len() + list0.len()
    &&& calls1.subrange(0, calls0.len() as int) =~= calls0
    &&& forall|i: int| 0 <= i < list0.len() ==> (#[trigger] calls1[calls0.len() + i]).0 == list0[i]
}
