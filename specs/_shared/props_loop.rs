// Shared by core_props_default, core_props_dedup (C02): `for_each` applied to a closure that captures a local
// by `&mut` (Verus rejects such closures), as a LOOP over the enumeration (rule R8).
//
// The visitors the default `Props::get` and `Dedup::for_each` pass to `for_each` capture `&mut value` / `&mut seen`.
// R8 splices the call `x.for_each(|k, v| BODY)` as
//     loop { let Some((k, v)) = enum_next(x, Ghost(visited)) else { break }; let answer = BODY; if answer is Break { break } }
// with BODY the closure's REAL body text, inlined where its captures are the real locals. The loop is the
// operational reading of the trait-level contract of `for_each` (`enumerated`, proved for every impl in
// core_props_enum): the visitor is called with the pairs of `kvs()` in order, no call follows one that answered
// Break, and Break is returned iff a call answered Break. `lemma_for_each_is_loop` below proves that reading from
// `enumerated` for every visitor that is a deterministic function of its captured state (`step`).

// GLUE (assumed): the enumeration protocol, one pair at a time
#[verifier::external_body]
pub fn enum_next<'kv, P: PropsView + ?Sized>(p: &'kv P, Ghost(visited): Ghost<int>) -> (r: Option<(Str<'kv>, Value<'kv>)>)
    requires 0 <= visited
    ensures
        visited < p.kvs().len() ==> r is Some && (r->0).0@ == p.kvs()[visited].0 && (r->0).1@ == p.kvs()[visited].1,
        visited >= p.kvs().len() ==> r is None,
{ unimplemented!() }

// a visitor as a pure function of its captured state: (state, key, value) -> (state after the call, "answered Break")
pub open spec fn run<S>(step: spec_fn(S, Key, Val) -> (S, bool), st: S, calls: Seq<Call>) -> S
    decreases calls.len()
{
    if calls.len() == 0 { st } else { run(step, step(st, calls[0].k, calls[0].v).0, calls.drop_first()) }
}

// every logged answer is the answer the visitor gives in the state it has reached
pub open spec fn answers_match<S>(step: spec_fn(S, Key, Val) -> (S, bool), st: S, calls: Seq<Call>) -> bool
    decreases calls.len()
{
    calls.len() == 0 || (calls[0].brk == step(st, calls[0].k, calls[0].v).1 && answers_match(step, step(st, calls[0].k, calls[0].v).0, calls.drop_first()))
}

// the loop: (final state, broke, number of pairs visited)
pub open spec fn loop_run<S>(step: spec_fn(S, Key, Val) -> (S, bool), st: S, kvs: Seq<Kv>) -> (S, bool, int)
    decreases kvs.len()
{
    if kvs.len() == 0 { (st, false, 0) } else {
        let a = step(st, kvs[0].0, kvs[0].1);
        if a.1 { (a.0, true, 1) } else { let r = loop_run(step, a.0, kvs.drop_first()); (r.0, r.1, r.2 + 1) }
    }
}

// Under the trait-level contract, `for_each` with a deterministic visitor IS the loop: the calls it makes, the
// state it leaves and the flow it returns are those of `loop_run`.
pub proof fn lemma_for_each_is_loop<S>(step: spec_fn(S, Key, Val) -> (S, bool), st: S, kvs: Seq<Kv>, calls: Seq<Call>, brk: bool)
    requires
        enumerated(kvs, Seq::<Call>::empty(), calls, brk),
        answers_match(step, st, calls),
    ensures
        loop_run(step, st, kvs) == (run(step, st, calls), brk, calls.len() as int),
    decreases kvs.len()
{
    let n = calls.len() as int;
    assert(calls =~= calls_of(kvs, n, brk));
    if kvs.len() > 0 {
        assert(n > 0);
        let a = step(st, kvs[0].0, kvs[0].1);
        assert(calls[0].k == kvs[0].0 && calls[0].v == kvs[0].1 && calls[0].brk == (brk && n == 1));
        let rest = calls.drop_first();
        assert(run(step, st, calls) == run(step, a.0, rest));
        assert(calls[0].brk == a.1 && answers_match(step, a.0, rest));
        if a.1 {
            assert(rest =~= Seq::<Call>::empty());
        } else {
            assert(rest =~= calls_of(kvs.drop_first(), n - 1, brk));
            assert(Seq::<Call>::empty() + calls_of(kvs.drop_first(), n - 1, brk) =~= rest);
            lemma_for_each_is_loop(step, a.0, kvs.drop_first(), rest, brk);
        }
    } else {
        assert(n == 0 && !brk);
    }
}
