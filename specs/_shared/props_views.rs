// Shared by core_props_get and core_props_enum (C02), second part: the types whose enumeration is a
// fixed list of well-known keys (extent, span context, span, metric), arrays and the ambient-context
// slot, with their `kvs` definitions (impls of `PropsView`).

// arrays: the slice's enumeration
impl<T, const N: usize> PropsView for [T; N] where [T]: PropsView {
    open spec fn kvs(&self) -> Seq<Kv> { vstd::array::spec_array_as_slice(self).kvs() }
}
// (sanity: for an array of collections that is the children's sequences in index order)
pub proof fn lemma_array_kvs<P: PropsView, const N: usize>(a: &[P; N])
    ensures a.kvs() == flat_kvs(a@)
{
    assert(vstd::array::spec_array_as_slice(a)@ == a@);
}
// ---------------------------------------------------------------- well-known views (extent, span context, span, metric)
//
// Keys are the real `well_known` constants through the real `impl ToStr for str`; values go
// through the real `ToValue` impls, which all end in `Value::capture_display` (abstract: the
// value view is an uninterpreted function of the captured datum).

//@extract core/src/well_known.rs / const KEY_TS
//@rules R1
//@end
//@extract core/src/well_known.rs / const KEY_TS_START
//@rules R1
//@end
//@extract core/src/well_known.rs / const KEY_EVT_KIND
//@rules R1
//@end
//@extract core/src/well_known.rs / const KEY_SPAN_NAME
//@rules R1
//@end
//@extract core/src/well_known.rs / const KEY_TRACE_ID
//@rules R1
//@end
//@extract core/src/well_known.rs / const KEY_SPAN_ID
//@rules R1
//@end
//@extract core/src/well_known.rs / const KEY_SPAN_PARENT
//@rules R1
//@end
//@extract core/src/well_known.rs / const KEY_METRIC_NAME
//@rules R1
//@end
//@extract core/src/well_known.rs / const KEY_METRIC_AGG
//@rules R1
//@end
//@extract core/src/well_known.rs / const KEY_METRIC_VALUE
//@rules R1
//@end

// assumed: core/src/str.rs:125 borrows the string; core/src/value.rs:37 captures a datum
impl<'k> Str<'k> {
    #[verifier::external_body]
    pub const fn new_ref(k: &'k str) -> (r: Str<'k>) ensures r@ == k.spec_bytes() { unimplemented!() }
}
pub uninterp spec fn display_val<T>(x: T) -> Val;
impl<'v> Value<'v> {
    #[verifier::external_body]
    pub fn capture_display<T>(value: &'v T) -> (r: Value<'v>) ensures r@ == display_val(*value) { unimplemented!() }
}

//@extract core/src/str.rs / impl ToStr for str
//@rules R1
//@members
    open spec fn key_view(&self) -> Key { self.spec_bytes() }
//@end

//@extract core/src/timestamp.rs / struct Timestamp
//@rules R1 R2
//@end

//@extract core/src/timestamp.rs / impl ToValue for Timestamp
//@rules R1
//@members
    open spec fn val_view(&self) -> Val { display_val(*self) }
//@end

//@extract core/src/extent.rs / struct Extent
//@rules R1 R2
//@end


// extent: (ts_start, ts) for a range, (ts) for a point
impl PropsView for Extent {
    open spec fn kvs(&self) -> Seq<Kv> {
        if self.is_range {
            seq![(KEY_TS_START.spec_bytes(), display_val(self.range.start)), (KEY_TS.spec_bytes(), display_val(self.range.end))]
        } else {
            seq![(KEY_TS.spec_bytes(), display_val(self.range.end))]
        }
    }
}


// opaque field types of the span / metric structs (never inspected by the enumerations)
#[verifier::external_body]
pub struct Path<'a> { _p: core::marker::PhantomData<&'a str> }
#[verifier::external_body]
pub struct Template<'a> { _p: core::marker::PhantomData<&'a str> }
// W3C ids: `TraceId(NonZeroU128)`, `SpanId(NonZeroU64)` (src/span.rs:48, 214), opaque here
#[verifier::external_body]
#[derive(Clone, Copy)]
pub struct TraceId { _p: u128 }
#[verifier::external_body]
#[derive(Clone, Copy)]
pub struct SpanId { _p: u64 }

//@extract src/kind.rs / enum Kind
//@rules R1
//@end

//@extract src/kind.rs / impl ToValue for Kind
//@rules R1
//@members
    open spec fn val_view(&self) -> Val { display_val(*self) }
//@end

//@extract src/span.rs / impl ToValue for TraceId
//@rules R1
//@members
    open spec fn val_view(&self) -> Val { display_val(*self) }
//@end

//@extract src/span.rs / impl ToValue for SpanId
//@rules R1
//@members
    open spec fn val_view(&self) -> Val { display_val(*self) }
//@end

// assumed: core/src/str.rs:246 (`self.get().to_value()`, the string itself as a value)
pub uninterp spec fn str_val(k: Key) -> Val;
impl<'k> ToValue for Str<'k> {
    open spec fn val_view(&self) -> Val { str_val(self@) }
    #[verifier::external_body]
    fn to_value(&self) -> (r: Value) { unimplemented!() }
}

//@extract src/span.rs / struct SpanCtxt
//@rules R1 R2
//@end

// span context: trace id, span id, parent id, each only if present
pub open spec fn opt_kv<T>(k: Key, o: Option<T>) -> Seq<Kv> {
    match o { Some(x) => seq![(k, display_val(x))], None => Seq::<Kv>::empty() }
}
impl PropsView for SpanCtxt {
    open spec fn kvs(&self) -> Seq<Kv> {
        opt_kv(KEY_TRACE_ID.spec_bytes(), self.trace_id) + opt_kv(KEY_SPAN_ID.spec_bytes(), self.span_id) + opt_kv(KEY_SPAN_PARENT.spec_bytes(), self.span_parent)
    }
}


//@extract src/span.rs / struct Span
//@rules R1 R2
//@end

// span: kind, name, then its own properties
impl<'a, P: PropsView> PropsView for Span<'a, P> {
    open spec fn kvs(&self) -> Seq<Kv> {
        seq![(KEY_EVT_KIND.spec_bytes(), display_val(Kind::Span)), (KEY_SPAN_NAME.spec_bytes(), str_val(self.name@))] + self.props.kvs()
    }
}


//@extract src/metric.rs / struct Metric
//@rules R1 R2
//@end

// metric sample: kind, name, aggregation, value, then its own properties
impl<'a, P: PropsView> PropsView for Metric<'a, P> {
    open spec fn kvs(&self) -> Seq<Kv> {
        seq![
            (KEY_EVT_KIND.spec_bytes(), display_val(Kind::Metric)),
            (KEY_METRIC_NAME.spec_bytes(), str_val(self.name@)),
            (KEY_METRIC_AGG.spec_bytes(), str_val(self.agg@)),
            (KEY_METRIC_VALUE.spec_bytes(), self.value@),
        ] + self.props.kvs()
    }
}


// ambient-context slot: a lifetime-erased borrow (core/src/ctxt.rs:265-278, `unsafe { &*self.0 }`).
// The raw-pointer accessor is a declared stub: `get()` returns the value the slot borrows.
#[verifier::external_body]
#[verifier::accept_recursive_types(T)]
pub struct Slot<T: ?Sized> { _p: *const T }
pub uninterp spec fn slot_target<T: ?Sized>(s: &Slot<T>) -> &T;
impl<T: ?Sized> Slot<T> {
    #[verifier::external_body]
    pub fn get(&self) -> (r: &T) ensures r == slot_target(self) { unimplemented!() }
}
impl<T: PropsView + ?Sized> PropsView for Slot<T> {
    open spec fn kvs(&self) -> Seq<Kv> { slot_target(self).kvs() }
}


