// Ghost model of proc_macro2::TokenStream for the macros_* units: what an expansion function GENERATES.
// A token stream is a sequence of tokens; a token is a word (identifier / punctuation / literal, as spelled
// in the quote body), a string literal with a given VALUE (an interpolated `&str` / `String`), an opaque
// token tree of the macro's INPUT (identified by an uninterpreted id), or a delimited group.
pub enum Delim { Paren, Bracket, Brace }

pub enum Tok {
    W(Seq<char>),
    Str(Seq<char>),
    In(int),
    G(Delim, Seq<Tok>),
    // only in PATTERNS (never generated): stands for any one word (a generated binder name)
    Any,
}

pub struct TokenStream { pub toks: Ghost<Seq<Tok>> }

impl View for TokenStream {
    type V = Seq<Tok>;
    open spec fn view(&self) -> Seq<Tok> { self.toks@ }
}

// quote's `ToTokens`: what `#x` appends
pub trait ToTokens {
    spec fn toks(&self) -> Seq<Tok>;
}
impl ToTokens for TokenStream {
    open spec fn toks(&self) -> Seq<Tok> { self@ }
}
impl<'a, T: ToTokens + ?Sized> ToTokens for &'a T {
    open spec fn toks(&self) -> Seq<Tok> { (**self).toks() }
}
impl<T: ToTokens> ToTokens for Option<T> {
    open spec fn toks(&self) -> Seq<Tok> {
        match self {
            Some(t) => t.toks(),
            None => Seq::empty(),
        }
    }
}
impl ToTokens for str {
    open spec fn toks(&self) -> Seq<Tok> { e().push(Tok::Str(self@)) }
}
impl ToTokens for String {
    open spec fn toks(&self) -> Seq<Tok> { e().push(Tok::Str(self@)) }
}

// every item's tokens, in order, (a) separated by `,` (b) by nothing
pub open spec fn rep_comma(items: Seq<Seq<Tok>>, n: int) -> Seq<Tok>
    decreases n
{
    if n <= 0 { Seq::empty() }
    else if n == 1 { items[0] }
    else { rep_comma(items, n - 1).push(Tok::W(","@)) + items[n - 1] }
}
pub open spec fn rep_plain(items: Seq<Seq<Tok>>, n: int) -> Seq<Tok>
    decreases n
{
    if n <= 0 { Seq::empty() } else { rep_plain(items, n - 1) + items[n - 1] }
}
// quote's repetition source (`#(#x),*` takes anything iterable over ToTokens items)
pub trait ToTokenItems {
    spec fn items(&self) -> Seq<Seq<Tok>>;
}
impl<T: ToTokens> ToTokenItems for Vec<T> {
    open spec fn items(&self) -> Seq<Seq<Tok>> { Seq::new(self@.len(), |i: int| self@[i].toks()) }
}
impl<'a, T: ToTokenItems + ?Sized> ToTokenItems for &'a T {
    open spec fn items(&self) -> Seq<Seq<Tok>> { (**self).items() }
}

impl TokenStream {
    #[verifier::external_body]
    pub fn new() -> (r: TokenStream)
        ensures r@ == Seq::<Tok>::empty()
    { unimplemented!() }

    #[verifier::external_body]
    pub fn push_word(&mut self, w: &str)
        ensures final(self)@ == old(self)@.push(Tok::W(w@))
    { unimplemented!() }

    #[verifier::external_body]
    pub fn push_group(&mut self, d: Delim, inner: TokenStream)
        ensures final(self)@ == old(self)@.push(grp(d, inner@))
    { unimplemented!() }

    #[verifier::external_body]
    pub fn push_interp<T: ToTokens + ?Sized>(&mut self, t: &T)
        ensures
            final(self)@ == old(self)@ + t.toks(),
            old(self)@.len() == 0 ==> final(self)@ == t.toks(),
    { unimplemented!() }

    #[verifier::external_body]
    pub fn push_rep_comma<T: ToTokenItems + ?Sized>(&mut self, t: &T)
        ensures final(self)@ == old(self)@ + rep_comma(t.items(), t.items().len() as int)
    { unimplemented!() }

    #[verifier::external_body]
    pub fn push_rep<T: ToTokenItems + ?Sized>(&mut self, t: &T)
        ensures final(self)@ == old(self)@ + rep_plain(t.items(), t.items().len() as int)
    { unimplemented!() }
}

impl Clone for TokenStream {
    #[verifier::external_body]
    fn clone(&self) -> (r: TokenStream)
        ensures r@ == self@
    { unimplemented!() }
}

// two groups with the same delimiter and (extensionally) the same tokens are the same token
pub open spec fn grp(d: Delim, inner: Seq<Tok>) -> Tok { Tok::G(d, inner) }
// (enabled per function with `broadcast use lemma_group_ext;` - a module-level `broadcast use` is rejected as cyclic)
pub broadcast proof fn lemma_group_ext(d: Delim, a: Seq<Tok>, b: Seq<Tok>)
    requires a =~= b
    ensures #![trigger grp(d, a), grp(d, b)] grp(d, a) == grp(d, b)
{}

// ---- vocabulary for the contracts ---------------------------------------------------------------
// (sequences are written as push chains, the form the quote mirror produces: `seq![a, b]` is not that term)
pub open spec fn e() -> Seq<Tok> { Seq::empty() }
pub open spec fn ee() -> Seq<Seq<Tok>> { Seq::empty() }
pub open spec fn w(s: &str) -> Tok { Tok::W(s@) }
pub open spec fn paren(inner: Seq<Tok>) -> Tok { grp(Delim::Paren, inner) }
pub open spec fn brace(inner: Seq<Tok>) -> Tok { grp(Delim::Brace, inner) }
pub open spec fn bracket(inner: Seq<Tok>) -> Tok { grp(Delim::Bracket, inner) }

// `a0, a1, .., a(n-1),`  (every argument followed by a comma: the style of the span expansions)
pub open spec fn args_trailing(args: Seq<Seq<Tok>>, n: int) -> Seq<Tok>
    decreases n
{
    if n <= 0 { Seq::empty() } else { (args_trailing(args, n - 1) + args[n - 1]).push(w(",")) }
}
// a generated call `PATH ( a0, a1, .., )`
pub open spec fn call(path: Seq<Tok>, args: Seq<Seq<Tok>>) -> Seq<Tok> {
    path.push(paren(args_trailing(args, args.len() as int)))
}
// util.rs `to_ref_tokens`: `&(T)`
pub open spec fn ref_toks(t: Seq<Tok>) -> Seq<Tok> { e().push(w("&")).push(paren(t)) }
// util.rs `to_option_tokens`: `Some(T)`  /  `None::<HINT>`
pub open spec fn some_toks(t: Seq<Tok>) -> Seq<Tok> { e().push(w("Some")).push(paren(t)) }
pub open spec fn none_toks(hint: Seq<Tok>) -> Seq<Tok> { e().push(w("None")).push(w("::")).push(w("<")) + hint + e().push(w(">")) }
pub open spec fn opt_toks(o: Option<Seq<Tok>>, hint: Seq<Tok>) -> Seq<Tok> {
    match o {
        Some(t) => some_toks(t),
        None => none_toks(hint),
    }
}
pub open spec fn opt_view(o: Option<TokenStream>) -> Option<Seq<Tok>> {
    match o {
        Some(t) => Some(t@),
        None => None,
    }
}
pub open spec fn opt_ref(o: Option<Seq<Tok>>) -> Option<Seq<Tok>> {
    match o {
        Some(t) => Some(ref_toks(t)),
        None => None,
    }
}
