// EventBatch::advance / rewind, shared by the file units (whole `impl EventBatch #1` minus `current`, which
// file_batch.rs extracts). Since fix F21 (events written before a failed write were dropped unsynced) `advance` only
// moves the cursor: the buffers stay in the batch so that `rewind` can hand all of them back.
//@extract emitter/file/src/lib.rs / impl EventBatch #1
//@rules R1 R2
//@keep advance rewind
//@fn advance
//@sig
        requires
            old(self).wf(),
            old(self).items().len() > 0,
        ensures
            final(self).wf(),
            final(self).items() =~= old(self).items().drop_first(),
            final(self).remaining_bytes == old(self).remaining_bytes - old(self).items()[0]@.len(),
            final(self).index == old(self).index + 1,
            // no buffer is taken out or changed -- only the cursor moves (so that the batch can be rewound; F21)
            final(self).bufs@ == old(self).bufs@,
//@inside-start start
        let ghost b0 = old(self).bufs@;
        let ghost i0 = old(self).index as int;
        proof {
            assert(sum_from(b0, i0) == b0[i0]@.len() + sum_from(b0, i0 + 1));
            lemma_sum_nonneg(b0, i0 + 1);
            // whatever is left in the slot under the cursor, the bytes after it are the same
            assert forall|x: Box<[u8]>| sum_from(#[trigger] b0.update(i0, x), i0 + 1) == sum_from(b0, i0 + 1) by {
                lemma_sum_update_before(b0, x, i0, i0 + 1);
            }
        }
//@before end
        proof {
            assert(self.bufs@ =~= b0.update(i0, self.bufs@[i0]));
        }
// EventBatch::rewind: the cursor goes back to the first buffer, every buffer is still there (an optional member: a
// text without it -- the tree before F21 -- is judged by the contracts around it, not left undecided)
//@fn? rewind
//@sig
        requires
            old(self).wf(),
            // resource precondition: the buffers of a batch are live allocations, their total size fits a usize
            sum_from(old(self).bufs@, 0) <= usize::MAX,
        ensures
            final(self).wf(),
            final(self).index == 0,
            final(self).bufs@ == old(self).bufs@,
//@loop 0
            invariant
                self.bufs@ == old(self).bufs@,
                self.index <= old(self).index,
                self.wf(),
                sum_from(self.bufs@, 0) <= usize::MAX,
            decreases self.index
//@inside-start while
            proof {
                lemma_sum_tail(self.bufs@, self.index as int - 1);
                assert(sum_from(self.bufs@, self.index as int - 1) == self.bufs@[self.index as int - 1]@.len() + sum_from(self.bufs@, self.index as int));
            }
//@end
