// Shared by otlp_log_record and otlp_span_record (C13): the vocabulary of the call-sequence contracts
// on the `sval` stream, the hand-declared mirrors of the dependency API the two record adapters use
// (trusted interface assumptions), and the REAL helpers of emitter/otlp/src/data.rs they are built from
// (`stream_field`, `AttributeStream` and its two methods), under contract.

// ------------------------------------------------------------------ properties as the adapters see them

/// one property: key text and value (as in otlp_attribute_keys: `Str::text()`, `Value::id()`)
pub type Kv = (&'static str, emit::value::Value<'static>);

/// lookup by enumeration: the first value under `k` (specs/_shared/props_spec.rs, keys as text)
pub open spec fn first(s: Seq<Kv>, k: &str) -> Option<emit::value::Value<'static>>
    decreases s.len()
{
    if s.len() == 0 { None } else if s[0].0 == k { Some(s[0].1) } else { first(s.drop_first(), k) }
}
pub open spec fn no_dup_keys(s: Seq<Kv>) -> bool {
    forall|i: int, j: int| 0 <= i < j < s.len() ==> s[i].0 != s[j].0
}
/// `d` yields every key of `s` once, with `s`'s first value for it (what `Props::dedup()` enumerates:
/// proved for `Dedup` in core_props_get / core_props_enum; its ORDER is not fixed - key order when the
/// source is not unique)
pub open spec fn is_dedup_of(d: Seq<Kv>, s: Seq<Kv>) -> bool {
    no_dup_keys(d) && forall|k: &str| first(d, k) == first(s, k)
}

/// a key that occurs in a sequence is found by `first`
pub proof fn lemma_first_some(s: Seq<Kv>, j: int)
    requires 0 <= j < s.len(),
    ensures first(s, s[j].0) is Some,
    decreases s.len(),
{
    if s[0].0 != s[j].0 {
        assert(s.drop_first()[j - 1] == s[j]);
        lemma_first_some(s.drop_first(), j - 1);
    }
}

// ------------------------------------------------------------------ what reaches the stream

/// the text a `Display` adapter shows
pub ghost enum ShownV {
    /// `emit::Level`'s `Display` (src/level.rs:110: "debug" / "info" / "warn" / "error")
    Level(emit::level::Level),
    /// an `emit::Value`'s `Display`
    Value(emit::value::Value<'static>),
    /// the `Display` of trace id (128 bit) / span id (64 bit) number `n`: lower-case hex (otlp_raw_ids)
    Id { bits: int, n: int },
    /// the number `n` in lower-case hex with as many digits as it needs (`format_args!("{:x}", n)`): leading zeros lost
    HexMin { n: int },
}
/// the value of a hand-built attribute
pub ghost enum AttrVal {
    /// `EmitValue(v)`: the property value through the any-value bridge (otlp_any_value)
    Emit(emit::value::Value<'static>),
    /// `TextValue(Stacktrace::new_borrowed(cause))`: the rendered cause chain of this error value
    Stacktrace(emit::value::Value<'static>),
    Other,
}
pub open spec fn attr_val_of(f: Form) -> AttrVal {
    match f { Form::Emit(v) => AttrVal::Emit(v), Form::Stacktrace(v) => AttrVal::Stacktrace(v), _ => AttrVal::Other }
}
/// a span event handed to the stream as a derived (`#[derive(Value)]`) struct
pub ghost struct EventV {
    pub name: Seq<char>,
    pub time_unix_nano: u64,
    pub attributes: Seq<(Seq<char>, AttrVal)>,
}
/// the form in which a computed value reaches the stream (`stream.value_computed(&x)`)
pub ghost enum Form {
    /// `sval::BinaryArray::new(&bytes)` (otlp_raw_ids: protobuf ids)
    Binary(Seq<u8>),
    /// `sval::Display::new(x)`: x's `Display` text (JSON ids: `ShownV::Id`, hex text)
    Text(ShownV),
    /// `EmitValue(v)`
    Emit(emit::value::Value<'static>),
    /// `TextValue(Stacktrace::new_borrowed(cause))`, cause chain of this error value
    Stacktrace(emit::value::Value<'static>),
    /// `KeyValue { key, value }` with a hand-built value (`stream_custom_attribute_computed`)
    KeyValue { key: &'static str, value: AttrVal },
    /// `Status { code, message }`: is the code `StatusCode::Error`, and the message text
    Status { error: bool, message: ShownV },
    /// `[Event { .. }]`
    Events(Seq<EventV>),
    /// anything else
    Other,
}

/// One call on the underlying `sval::Stream`
pub ghost enum Call {
    /// `record_tuple_begin(tag, label, index, num_entries)`; `anonymous` = tag, label and index are all `None`
    RecordBegin { anonymous: bool, num_entries: Option<usize> },
    /// `record_tuple_end(tag, label, index)`
    RecordEnd { anonymous: bool },
    /// `record_tuple_value_begin(tag, label, index)`: a field of the record opens; `untagged` = tag is `None`.
    /// `index` is the protobuf field number, `label` the JSON member name
    FieldBegin { untagged: bool, label: sval::Label, index: sval::Index },
    /// `record_tuple_value_end(tag, label, index)`
    FieldEnd { untagged: bool, label: sval::Label, index: sval::Index },
    SeqBegin(Option<usize>),
    SeqValueBegin,
    SeqValueEnd,
    SeqEnd,
    I32(i32),
    /// `sval::stream_display(stream, x)`: the `Display` text of x
    Display(ShownV),
    /// `stream.value_computed(&x)`
    Computed(Form),
    /// `sval_ref::stream_ref(stream, KeyValue { key, value: EmitValue(value) })`: one attribute, its value through
    /// the any-value bridge
    KeyValue { key: &'static str, value: emit::value::Value<'static> },
}

/// The history of a stream (ghost; history variables, not assumptions about the stream): the calls made on it so
/// far, how many of them returned `Err`, and the first one that did.
pub ghost struct Hist {
    pub log: Seq<Call>,
    pub errs: nat,
    pub first_fail: Option<Call>,
}
/// one more call on the stream: it is logged, and a failing call is counted / remembered
pub open spec fn stepped(h0: Hist, h1: Hist, c: Call, r: sval::Result) -> bool {
    &&& h1.log == h0.log.push(c)
    &&& h1.errs == h0.errs + (if r is Err { 1nat } else { 0nat })
    &&& h1.first_fail == (if h0.first_fail is None && r is Err { Some(c) } else { h0.first_fail })
}
/// a later history of the same stream: failures only accumulate, the first one stays
pub open spec fn extends(h0: Hist, h1: Hist) -> bool {
    &&& h1.errs >= h0.errs
    &&& h0.first_fail is Some ==> h1.first_fail == h0.first_fail
    &&& h1.errs == h0.errs ==> h1.first_fail == h0.first_fail
}
/// calls that stream ONE attribute (an element of the attribute sequence)
pub open spec fn attr_elem_call(c: Call) -> bool {
    c is SeqValueBegin || c is SeqValueEnd || c is KeyValue || (c matches Call::Computed(f) && f is KeyValue)
}
/// the only failures that may be swallowed are those of an attribute: `stream_attributes` ends the enumeration at
/// the first attribute that fails to stream and goes on (data.rs:338 `let _ = ..for_each(..)`)
pub open spec fn only_attr_failed(h0: Hist, h1: Hist) -> bool {
    h0.first_fail is None ==> (h1.first_fail matches Some(c) ==> attr_elem_call(c))
}

// ------------------------------------------------------------------ sval (mirror, trusted interface assumptions)

pub mod sval {
    use vstd::prelude::*;
    use super::{Call, Form, ShownV, Hist, stepped};
    #[verifier::external_body] pub struct Error { x: u8 }
    impl Error {
        #[verifier::external_body] pub fn new() -> Error { unimplemented!() }
    }
    pub type Result = core::result::Result<(), Error>;
    pub struct Tag;
    /// opaque: the label consts are built by a `const fn` method chain (`Label::new(..).with_tag(..)`), which a
    /// Verus `const` cannot reveal; the adapters' uses of them are named instead (see `named`)
    #[verifier::external_body] pub struct Label { x: u8 }
    impl Label {
        #[verifier::external_body] pub const fn new(_label: &'static str) -> Label { Label { x: 0 } }
        #[verifier::external_body] pub const fn with_tag(self, _tag: &Tag) -> Label { Label { x: 0 } }
    }
    /// `sval::Index::new(n)` carries the number n: a tuple variant, so that the REAL `const .._INDEX: sval::Index =
    /// sval::Index::new(n);` items are ordinary (spec + exec) Verus consts whose value the contracts can read
    #[allow(non_camel_case_types)]
    pub enum Index { new(i32) }
    pub mod tags {
        pub const VALUE_IDENT: super::Tag = super::Tag;
    }

    /// spec-only: the form a value takes when it is handed to `value_computed`
    pub trait HasForm {
        spec fn form(&self) -> Form;
    }
    pub trait Value: HasForm {
        fn stream<'sval, S: Stream<'sval> + ?Sized>(&'sval self, stream: &mut S) -> Result;
    }
    /// the members the extracted text calls. Each call is logged; nothing else is known about the stream
    /// (any call may fail).
    pub trait Stream<'sval> {
        spec fn hist(&self) -> Hist;
        fn record_tuple_begin(&mut self, tag: Option<&Tag>, label: Option<&Label>, index: Option<&Index>, num_entries: Option<usize>) -> (r: Result)
            ensures stepped(old(self).hist(), final(self).hist(), Call::RecordBegin { anonymous: tag is None && label is None && index is None, num_entries }, r);
        fn record_tuple_end(&mut self, tag: Option<&Tag>, label: Option<&Label>, index: Option<&Index>) -> (r: Result)
            ensures stepped(old(self).hist(), final(self).hist(), Call::RecordEnd { anonymous: tag is None && label is None && index is None }, r);
        fn record_tuple_value_begin(&mut self, tag: Option<&Tag>, label: &Label, index: &Index) -> (r: Result)
            ensures stepped(old(self).hist(), final(self).hist(), Call::FieldBegin { untagged: tag is None, label: *label, index: *index }, r);
        fn record_tuple_value_end(&mut self, tag: Option<&Tag>, label: &Label, index: &Index) -> (r: Result)
            ensures stepped(old(self).hist(), final(self).hist(), Call::FieldEnd { untagged: tag is None, label: *label, index: *index }, r);
        fn seq_begin(&mut self, num_entries: Option<usize>) -> (r: Result)
            ensures stepped(old(self).hist(), final(self).hist(), Call::SeqBegin(num_entries), r);
        fn seq_value_begin(&mut self) -> (r: Result)
            ensures stepped(old(self).hist(), final(self).hist(), Call::SeqValueBegin, r);
        fn seq_value_end(&mut self) -> (r: Result)
            ensures stepped(old(self).hist(), final(self).hist(), Call::SeqValueEnd, r);
        fn seq_end(&mut self) -> (r: Result)
            ensures stepped(old(self).hist(), final(self).hist(), Call::SeqEnd, r);
        fn i32(&mut self, value: i32) -> (r: Result)
            ensures stepped(old(self).hist(), final(self).hist(), Call::I32(value), r);
        fn value_computed<V: HasForm + ?Sized>(&mut self, v: &V) -> (r: Result)
            ensures stepped(old(self).hist(), final(self).hist(), Call::Computed(v.form()), r);
    }

    /// what `Display` shows of a value
    pub trait Shown { spec fn shown(&self) -> ShownV; }
    impl<'a, T: Shown> Shown for &'a T { open spec fn shown(&self) -> ShownV { (**self).shown() } }
    /// `sval::stream_display(stream, value)`
    #[verifier::external_body]
    pub fn stream_display<'sval, S: Stream<'sval> + ?Sized, D: Shown>(stream: &mut S, value: D) -> (r: Result)
        ensures stepped(old(stream).hist(), final(stream).hist(), Call::Display(value.shown()), r),
    { unimplemented!() }

    /// `sval::Display<T>`: streams T's `Display` text
    #[verifier::external_body]
    #[verifier::accept_recursive_types(T)]
    pub struct Display<T> { x: core::marker::PhantomData<T> }
    impl<T: Shown> Display<T> {
        pub uninterp spec fn text(&self) -> ShownV;
        #[verifier::external_body]
        pub fn new_borrowed<'a>(value: &'a T) -> (r: &'a Display<T>) ensures r.text() == value.shown() { unimplemented!() }
        #[verifier::external_body]
        pub fn new(value: T) -> (r: Display<T>) ensures r.text() == value.shown() { unimplemented!() }
    }
    impl<T: Shown> HasForm for Display<T> {
        open spec fn form(&self) -> Form { Form::Text(self.text()) }
    }
    /// `sval::BinaryArray<N>`: a fixed-size byte string
    #[verifier::external_body]
    pub struct BinaryArray<'a, const N: usize> { x: core::marker::PhantomData<&'a [u8; N]> }
    impl<'a, const N: usize> BinaryArray<'a, N> {
        pub uninterp spec fn bytes(&self) -> Seq<u8>;
        #[verifier::external_body]
        pub fn new(bytes: &'a [u8; N]) -> (r: BinaryArray<'a, N>) ensures r.bytes() == bytes@ { unimplemented!() }
    }
    impl<'a, const N: usize> HasForm for BinaryArray<'a, N> {
        open spec fn form(&self) -> Form { Form::Binary(self.bytes()) }
    }
}

/// the name of a label const at a place where the extracted text uses it (`&LOG_RECORD_.._LABEL`): R9. Says only
/// that a const has ONE value (`label_of` is uninterpreted, nothing relates two names), so that the contracts
/// can say WHICH const is paired with which index. The label TEXTS ("traceId", ..) stay outside the contracts.
pub uninterp spec fn label_of(name: &str) -> sval::Label;
#[verifier::external_body]
pub fn named<'a>(l: &'a sval::Label, Ghost(name): Ghost<&'static str>) -> (r: &'a sval::Label)
    ensures *r == label_of(name),
{ l }

// ------------------------------------------------------------------ emit (mirror; level.rs and well_known.rs real)

pub mod emit {
    use vstd::prelude::*;
    pub mod str {
        use vstd::prelude::*;
        #[verifier::external_body]
        pub struct Str<'k> { x: core::marker::PhantomData<&'k ()> }
        impl<'k> Str<'k> {
            pub uninterp spec fn text(&self) -> &'static str;
            #[verifier::external_body]
            pub fn get(&self) -> (r: &str) ensures r == self.text() { unimplemented!() }
            #[verifier::external_body]
            pub fn new(k: &'static str) -> (r: Str<'static>) ensures r.text() == k { unimplemented!() }
        }
    }
    pub use self::str::Str;
    pub mod value {
        use vstd::prelude::*;
        #[verifier::external_body]
        pub struct Value<'v> { x: core::marker::PhantomData<&'v ()> }
        /// the result of the typed read `Value::cast::<T>()` (parse fall-back included; which values cast is C15 / C04)
        pub uninterp spec fn cast_spec<T>(v: Value<'static>) -> Option<T>;
        impl<'v> Value<'v> {
            pub uninterp spec fn id(&self) -> Value<'static>;
            #[verifier::external_body]
            pub fn by_ref<'b>(&'b self) -> (r: Value<'b>) ensures r.id() == self.id() { unimplemented!() }
            #[verifier::external_body]
            pub fn cast<T>(self) -> (r: Option<T>) ensures r == cast_spec::<T>(self.id()) { unimplemented!() }
        }
        impl<'v> super::super::sval::Shown for Value<'v> {
            open spec fn shown(&self) -> super::super::ShownV { super::super::ShownV::Value(self.id()) }
        }
    }
    pub use self::value::Value;
    pub mod level {
        use vstd::prelude::*;
//@extract src/level.rs / enum Level
//@rules R1 R2
//@end
//@extract src/level.rs / impl Default for Level
//@rules R1
//@fn default
//@ret r
//@sig
                ensures r == Level::Info,
//@end
        // src/level.rs:61 `#[derive(.. PartialEq, Eq, PartialOrd, Ord ..)]`: the derived order is the declaration order
        // Debug < Info < Warn < Error (so that a comparison a maintainer writes instead of the `match` is judged)
        pub open spec fn rank(l: Level) -> int { match l { Level::Debug => 0, Level::Info => 1, Level::Warn => 2, Level::Error => 3 } }
        impl PartialEq for Level {
            #[verifier::external_body]
            fn eq(&self, other: &Level) -> bool { unimplemented!() }
        }
        impl vstd::std_specs::cmp::PartialEqSpecImpl for Level {
            open spec fn obeys_eq_spec() -> bool { true }
            open spec fn eq_spec(&self, other: &Level) -> bool { *self == *other }
        }
        impl PartialOrd for Level {
            #[verifier::external_body]
            fn partial_cmp(&self, other: &Level) -> Option<core::cmp::Ordering> { unimplemented!() }
        }
        impl vstd::std_specs::cmp::PartialOrdSpecImpl for Level {
            open spec fn obeys_partial_cmp_spec() -> bool { true }
            open spec fn partial_cmp_spec(&self, other: &Level) -> Option<core::cmp::Ordering> {
                if rank(*self) < rank(*other) { Some(core::cmp::Ordering::Less) }
                else if rank(*self) == rank(*other) { Some(core::cmp::Ordering::Equal) }
                else { Some(core::cmp::Ordering::Greater) }
            }
        }
        impl super::super::sval::Shown for Level {
            open spec fn shown(&self) -> super::super::ShownV { super::super::ShownV::Level(*self) }
        }
    }
    pub use self::level::Level;
    #[verifier::external_body] pub struct TraceId { x: u8 }
    #[verifier::external_body] pub struct SpanId { x: u8 }
    pub mod well_known {
//@extract core/src/well_known.rs / const KEY_LVL
//@rules R1
//@end
//@extract core/src/well_known.rs / const KEY_SPAN_ID
//@rules R1
//@end
//@extract core/src/well_known.rs / const KEY_SPAN_PARENT
//@rules R1
//@end
//@extract core/src/well_known.rs / const KEY_TRACE_ID
//@rules R1
//@end
//@extract core/src/well_known.rs / const KEY_ERR
//@rules R1
//@end
//@extract core/src/well_known.rs / const KEY_EVT_KIND
//@rules R1
//@end
//@extract core/src/well_known.rs / const KEY_SPAN_NAME
//@rules R1
//@end
    }
    pub mod props {
        use vstd::prelude::*;
        use super::super::{Kv, first, is_dedup_of};
        /// emit_core::props::Props, the members the adapters use
        pub trait Props {
            /// the sequence this collection enumerates (core_props_enum proves `for_each` produces it)
            spec fn kvs(&self) -> Seq<Kv>;
            // core/src/props.rs `fn dedup(&self) -> &Dedup<Self>`
            /// what `self.dedup()` enumerates (`Dedup` is deterministic)
            spec fn deduped(&self) -> Seq<Kv>;
            fn dedup(&self) -> (r: &Dedup<Self>)
                where Self: Sized
                ensures r.seq() == self.deduped(), is_dedup_of(self.deduped(), self.kvs());
            // core/src/props.rs:57 `fn get<'v, K: ToStr>(&'v self, key: K) -> Option<Value<'v>>`, keys as `&str`: the
            // first value under the key (proved for emit's own collections in core_props_get; a law every `Props` must obey)
            fn get<'v>(&'v self, key: &str) -> (r: Option<super::value::Value<'v>>)
                ensures
                    r is Some == first(self.kvs(), key) is Some,
                    r matches Some(v) ==> Some(v.id()) == first(self.kvs(), key);
        }
        #[verifier::external_body]
        #[verifier::accept_recursive_types(P)]
        pub struct Dedup<P> { x: core::marker::PhantomData<P> }
        impl<P> Dedup<P> {
            /// the sequence the de-duplicated view enumerates
            pub uninterp spec fn seq(&self) -> Seq<Kv>;
            // MODEL of the enumeration protocol of `<Dedup<P> as Props>::for_each` (core/src/props.rs:274, under
            // contract in core_props_enum): the visitor is handed `seq()[0]`, `seq()[1]`, .. in this order until it
            // breaks. `len` / `nth` exist only so that the hand-written driver loop below can be verified.
            #[verifier::external_body]
            pub fn len(&self) -> (n: usize) ensures n == self.seq().len() { unimplemented!() }
            #[verifier::external_body]
            pub fn nth<'a>(&'a self, i: usize) -> (r: (super::str::Str<'a>, super::value::Value<'a>))
                requires i < self.seq().len()
                ensures r.0.text() == self.seq()[i as int].0, r.1.id() == self.seq()[i as int].1,
            { unimplemented!() }
        }
    }
}
use emit::props::Props as _;   // data.rs:18 `use emit::Props as _;`
use emit::well_known::{KEY_LVL, KEY_SPAN_ID, KEY_SPAN_PARENT, KEY_TRACE_ID, KEY_ERR, KEY_EVT_KIND, KEY_SPAN_NAME};
use core::ops::ControlFlow;
use vstd::std_specs::convert::FromSpec;
use sval::{HasForm as _, Shown as _};

// std (trusted): the adapter closure of `stream_attributes` turns the visitor's result into a ControlFlow with these
pub assume_specification<T, E> [Result::<T, E>::unwrap_or](r: Result<T, E>, default: T) -> (o: T)
    ensures o == (match r { Ok(t) => t, Err(_) => default });

// ------------------------------------------------------------------ any_value.rs: attribute building blocks

//@extract emitter/otlp/src/data/any_value.rs / struct KeyValue
//@rules R1 R2
//@end
//@extract emitter/otlp/src/data/any_value.rs / struct EmitValue
//@rules R1 R2
//@end
//@extract emitter/otlp/src/data/any_value.rs / struct TextValue
//@rules R1 R2
//@end
// the cause chain of an error value (`dyn Error`): opaque
#[verifier::external_body] pub struct Cause { x: u8 }
impl Cause { pub uninterp spec fn of(&self) -> emit::value::Value<'static>; }
#[verifier::external_body] pub struct Stacktrace { x: u8 }
impl Stacktrace {
    pub uninterp spec fn of(&self) -> emit::value::Value<'static>;
    #[verifier::external_body] pub fn new_borrowed(cause: Cause) -> (r: Stacktrace) ensures r.of() == cause.of() { unimplemented!() }
}
/// does this value hold an error that has a source (`to_borrowed_error().and_then(|err| err.source())` is `Some`)?
pub uninterp spec fn has_cause(v: emit::value::Value<'static>) -> bool;
// R10 stand-in for `v.to_borrowed_error().and_then(|err| err.source())` (`dyn Error`)
#[verifier::external_body]
pub fn error_cause(v: &emit::value::Value<'_>) -> (r: Option<Cause>)
    ensures r is Some == has_cause(v.id()), r matches Some(c) ==> c.of() == v.id(),
{ unimplemented!() }

impl<'a> sval::HasForm for EmitValue<'a> { open spec fn form(&self) -> Form { Form::Emit(self.0.id()) } }
impl sval::HasForm for TextValue<Stacktrace> { open spec fn form(&self) -> Form { Form::Stacktrace(self.0.of()) } }
impl<'k, V: sval::HasForm> sval::HasForm for KeyValue<emit::str::Str<'k>, V> {
    open spec fn form(&self) -> Form { Form::KeyValue { key: self.key.text(), value: attr_val_of(self.value.form()) } }
}
impl sval::Value for TextValue<Stacktrace> {
    #[verifier::external_body]
    fn stream<'sval, S: sval::Stream<'sval> + ?Sized>(&'sval self, stream: &mut S) -> sval::Result { unimplemented!() }
}

pub mod sval_ref {
    use vstd::prelude::*;
    use super::{Call, stepped, sval};
    /// what `sval_ref::stream_ref(stream, v)` puts on the stream
    pub trait ValueRef { spec fn ref_call(&self) -> Call; }
    #[verifier::external_body]
    pub fn stream_ref<'sval, S: sval::Stream<'sval> + ?Sized, V: ValueRef>(stream: &mut S, value: V) -> (r: sval::Result)
        ensures stepped(old(stream).hist(), final(stream).hist(), value.ref_call(), r),
    { unimplemented!() }
}
impl<'k, 'v> sval_ref::ValueRef for KeyValue<emit::str::Str<'k>, EmitValue<'v>> {
    open spec fn ref_call(&self) -> Call { Call::KeyValue { key: self.key.text(), value: self.value.0.id() } }
}

// ------------------------------------------------------------------ data.rs:316-325 `stream_field` (real)

/// `field` ran on the stream between `s0` (its pre-state: the field has been opened) and `s1`
pub open spec fn field_ran(h0: Hist, h1: Hist, b: Call, e: Call, s0: Hist, s1: Hist, fr: sval::Result, r: sval::Result) -> bool {
    &&& stepped(h0, s0, b, Ok(()))
    &&& if fr is Err { r is Err && h1 == s1 } else { stepped(s1, h1, e, r) }
}

//@extract emitter/otlp/src/data.rs / fn stream_field
//@rules R1 R2
//@ret r
//@sig
    requires
        forall|s: &mut S| field.requires((s,)),
    ensures
        // the field is opened under (label, index); if that fails nothing else happens; otherwise the field body runs
        // once on the stream; if it fails the error is returned as it is, otherwise the field is closed under the SAME
        // (label, index)
        ({
            let b = Call::FieldBegin { untagged: true, label: *label, index: *index };
            let e = Call::FieldEnd { untagged: true, label: *label, index: *index };
            ||| (r is Err && stepped(old(stream).hist(), final(stream).hist(), b, r))
            ||| exists|s: &mut S, fr: sval::Result| #[trigger] field.ensures((s,), fr)
                    && field_ran(old(stream).hist(), final(stream).hist(), b, e, s.hist(), final(s).hist(), fr, r)
        }),
//@end

// ------------------------------------------------------------------ data.rs:349-383 `AttributeStream` (real)

//@extract emitter/otlp/src/data.rs / struct AttributeStream
//@rules R1 R2
//@end

/// one attribute through the any-value bridge: `[SeqValueBegin, KeyValue{key, value}, SeqValueEnd]`
pub open spec fn attribute_calls(key: &'static str, value: emit::value::Value<'static>) -> Seq<Call> {
    seq![Call::SeqValueBegin, Call::KeyValue { key, value }, Call::SeqValueEnd]
}
/// one hand-built attribute: `[SeqValueBegin, Computed(KeyValue{key, value}), SeqValueEnd]`
pub open spec fn custom_attribute_calls(key: &'static str, value: AttrVal) -> Seq<Call> {
    seq![Call::SeqValueBegin, Call::Computed(Form::KeyValue { key, value }), Call::SeqValueEnd]
}

//@extract emitter/otlp/src/data.rs / impl AttributeStream<'a, S>
//@rules R1 R2
//@fn stream_attribute
//@ret r
//@sig
        ensures
            // the sink keeps writing to the same stream
            final(final(self).0).hist() == final(old(self).0).hist(),
            extends(old(self).0.hist(), final(self).0.hist()),
            r is Err ==> final(self).0.hist().errs > old(self).0.hist().errs,
            only_attr_failed(old(self).0.hist(), final(self).0.hist()),
            // nothing failed: exactly one sequence element holding the (key, value) pair
            final(self).0.hist().errs == old(self).0.hist().errs ==> r is Ok
                && final(self).0.hist().log == old(self).0.hist().log + attribute_calls(key.text(), value.id()),
//@fn stream_custom_attribute_computed
//@ret r
//@sig
        ensures
            final(final(self).0).hist() == final(old(self).0).hist(),
            extends(old(self).0.hist(), final(self).0.hist()),
            r is Err ==> final(self).0.hist().errs > old(self).0.hist().errs,
            only_attr_failed(old(self).0.hist(), final(self).0.hist()),
            final(self).0.hist().errs == old(self).0.hist().errs ==> r is Ok
                && final(self).0.hist().log == old(self).0.hist().log + custom_attribute_calls(key.text(), attr_val_of(value.form())),
//@end

// ------------------------------------------------------------------ reading the call sequences (lemmas for the corollaries)

/// `c` streams an attribute whose key is `k`
pub open spec fn call_has_key(c: Call, k: &str) -> bool {
    match c {
        Call::KeyValue { key, .. } => key == k,
        Call::Computed(Form::KeyValue { key, .. }) => key == k,
        _ => false,
    }
}
/// how many attributes with key `k` a call sequence streams
pub open spec fn key_count(s: Seq<Call>, k: &str) -> nat
    decreases s.len()
{
    if s.len() == 0 { 0 } else { key_count(s.drop_last(), k) + (if call_has_key(s.last(), k) { 1nat } else { 0nat }) }
}
pub proof fn lemma_key_count_concat(a: Seq<Call>, b: Seq<Call>, k: &str)
    ensures key_count(a + b, k) == key_count(a, k) + key_count(b, k)
    decreases b.len()
{
    if b.len() == 0 {
        assert(a + b =~= a);
    } else {
        assert((a + b).drop_last() =~= a + b.drop_last());
        assert((a + b).last() == b.last());
        lemma_key_count_concat(a, b.drop_last(), k);
    }
}
pub proof fn lemma_key_count_3(x: Call, y: Call, z: Call, k: &str)
    ensures key_count(seq![x, y, z], k) == (if call_has_key(x, k) { 1nat } else { 0nat }) + (if call_has_key(y, k) { 1nat } else { 0nat }) + (if call_has_key(z, k) { 1nat } else { 0nat })
{
    let s = seq![x, y, z];
    assert(s.drop_last() =~= seq![x, y]);
    assert(seq![x, y].drop_last() =~= seq![x]);
    assert(seq![x].drop_last() =~= Seq::<Call>::empty());
    reveal_with_fuel(key_count, 4);
}
pub proof fn lemma_key_count_attribute(key: &'static str, value: emit::value::Value<'static>, k: &str)
    ensures key_count(attribute_calls(key, value), k) == (if key == k { 1nat } else { 0nat })
{
    lemma_key_count_3(Call::SeqValueBegin, Call::KeyValue { key, value }, Call::SeqValueEnd, k);
}
pub proof fn lemma_key_count_custom(key: &'static str, value: AttrVal, k: &str)
    ensures key_count(custom_attribute_calls(key, value), k) == (if key == k { 1nat } else { 0nat })
{
    lemma_key_count_3(Call::SeqValueBegin, Call::Computed(Form::KeyValue { key, value }), Call::SeqValueEnd, k);
}

/// `first` over a sequence extended at the back
pub proof fn lemma_first_push(s: Seq<Kv>, x: Kv, k: &str)
    ensures first(s.push(x), k) == (if first(s, k) is Some { first(s, k) } else if x.0 == k { Some(x.1) } else { None })
    decreases s.len()
{
    if s.len() == 0 {
        assert(s.push(x).drop_first() =~= Seq::<Kv>::empty());
        reveal_with_fuel(first, 3);
    } else {
        assert(s.push(x).drop_first() =~= s.drop_first().push(x));
        lemma_first_push(s.drop_first(), x, k);
    }
}
pub proof fn lemma_first_none(s: Seq<Kv>, k: &str)
    requires forall|j: int| 0 <= j < s.len() ==> s[j].0 != k,
    ensures first(s, k) is None,
    decreases s.len(),
{
    if s.len() > 0 {
        assert forall|j: int| 0 <= j < s.drop_first().len() implies s.drop_first()[j].0 != k by { assert(s.drop_first()[j] == s[j + 1]); }
        lemma_first_none(s.drop_first(), k);
    }
}
/// the last pair of a duplicate-free enumeration: its key does not occur before it
pub proof fn lemma_no_dup_last(d: Seq<Kv>)
    requires no_dup_keys(d), d.len() > 0,
    ensures no_dup_keys(d.drop_last()), first(d.drop_last(), d.last().0) is None,
{
    let d1 = d.drop_last();
    assert forall|i: int, j: int| 0 <= i < j < d1.len() implies d1[i].0 != d1[j].0 by { assert(d1[i] == d[i] && d1[j] == d[j]); }
    assert forall|j: int| 0 <= j < d1.len() implies d1[j].0 != d.last().0 by { assert(d1[j] == d[j]); }
    lemma_first_none(d1, d.last().0);
}
/// the well-known keys (and the two exception.* attribute keys) are pairwise different texts
pub proof fn lemma_keys_distinct()
    ensures
        KEY_LVL != KEY_SPAN_ID, KEY_LVL != KEY_SPAN_PARENT, KEY_LVL != KEY_TRACE_ID, KEY_LVL != KEY_ERR, KEY_LVL != KEY_EVT_KIND, KEY_LVL != KEY_SPAN_NAME,
        KEY_SPAN_ID != KEY_SPAN_PARENT, KEY_SPAN_ID != KEY_TRACE_ID, KEY_SPAN_ID != KEY_ERR, KEY_SPAN_ID != KEY_EVT_KIND, KEY_SPAN_ID != KEY_SPAN_NAME,
        KEY_SPAN_PARENT != KEY_TRACE_ID, KEY_SPAN_PARENT != KEY_ERR, KEY_SPAN_PARENT != KEY_EVT_KIND, KEY_SPAN_PARENT != KEY_SPAN_NAME,
        KEY_TRACE_ID != KEY_ERR, KEY_TRACE_ID != KEY_EVT_KIND, KEY_TRACE_ID != KEY_SPAN_NAME,
        KEY_ERR != KEY_EVT_KIND, KEY_ERR != KEY_SPAN_NAME, KEY_EVT_KIND != KEY_SPAN_NAME,
        "exception.message" != "exception.stacktrace",
        "exception.message" != KEY_LVL, "exception.message" != KEY_SPAN_ID, "exception.message" != KEY_TRACE_ID, "exception.message" != KEY_ERR,
        "exception.stacktrace" != KEY_LVL, "exception.stacktrace" != KEY_SPAN_ID, "exception.stacktrace" != KEY_TRACE_ID, "exception.stacktrace" != KEY_ERR,
{
    reveal_strlit("lvl"); reveal_strlit("span_id"); reveal_strlit("span_parent");
    reveal_strlit("trace_id"); reveal_strlit("err"); reveal_strlit("evt_kind");
    reveal_strlit("span_name"); reveal_strlit("exception.message"); reveal_strlit("exception.stacktrace");
    assert(KEY_LVL@.len() == 3 && KEY_SPAN_ID@.len() == 7 && KEY_SPAN_PARENT@.len() == 11 && KEY_TRACE_ID@.len() == 8 && KEY_ERR@.len() == 3
        && KEY_EVT_KIND@.len() == 8 && KEY_SPAN_NAME@.len() == 9 && "exception.message"@.len() == 17 && "exception.stacktrace"@.len() == 20);
    assert(KEY_LVL@[0] != KEY_ERR@[0]);
    assert(KEY_TRACE_ID@[0] != KEY_EVT_KIND@[0]);
}

/// "the keys of the streamed attributes are pairwise distinct"
pub open spec fn attr_keys_pairwise_distinct(s: Seq<Call>) -> bool {
    forall|i: int, j: int, k: &str| 0 <= i < j < s.len() && call_has_key(s[i], k) ==> !call_has_key(s[j], k)
}
pub proof fn lemma_key_count_ge1(s: Seq<Call>, i: int, k: &str)
    requires 0 <= i < s.len(), call_has_key(s[i], k),
    ensures key_count(s, k) >= 1,
    decreases s.len(),
{
    if i < s.len() - 1 {
        assert(s.drop_last()[i] == s[i]);
        lemma_key_count_ge1(s.drop_last(), i, k);
    }
}
pub proof fn lemma_key_count_ge2(s: Seq<Call>, i: int, j: int, k: &str)
    requires 0 <= i < j < s.len(), call_has_key(s[i], k), call_has_key(s[j], k),
    ensures key_count(s, k) >= 2,
    decreases s.len(),
{
    if j < s.len() - 1 {
        assert(s.drop_last()[i] == s[i] && s.drop_last()[j] == s[j]);
        lemma_key_count_ge2(s.drop_last(), i, j, k);
    } else {
        assert(s.drop_last()[i] == s[i]);
        lemma_key_count_ge1(s.drop_last(), i, k);
    }
}
/// no key counted twice = pairwise distinct keys
pub proof fn lemma_count_le1_pairwise(s: Seq<Call>)
    requires forall|k: &str| key_count(s, k) <= 1,
    ensures attr_keys_pairwise_distinct(s),
{
    assert forall|i: int, j: int, k: &str| 0 <= i < j < s.len() && call_has_key(s[i], k) implies !call_has_key(s[j], k) by {
        if call_has_key(s[j], k) { lemma_key_count_ge2(s, i, j, k); }
    }
}
