// Shared by traceparent_step (C18) and emit_span_ctxt (C04): prelude mirrors of the small
// vocabulary types of `emit_core` that the span / traceparent code is written against.
// Same abstraction as _shared/props_spec.rs (C02): a property collection is the sequence of
// (key bytes, value) pairs its `for_each` enumerates; a lookup is the first match.
// Nothing here has a body that is claimed verified.

// ---- emit_core::str::Str / emit_core::value::Value: opaque, with ghost views -------------
pub type Key = Seq<u8>;

#[verifier::external_body]
pub struct Val {}

pub type Kv = (Key, Val);

#[verifier::external_body]
pub struct Str<'k> { _p: core::marker::PhantomData<&'k str> }

#[verifier::external_body]
pub struct Value<'v> { _p: core::marker::PhantomData<&'v str> }

pub uninterp spec fn str_key(s: Str<'_>) -> Key;
pub uninterp spec fn value_val(v: Value<'_>) -> Val;

impl<'k> View for Str<'k> { type V = Key; open spec fn view(&self) -> Key { str_key(*self) } }
impl<'v> View for Value<'v> { type V = Val; open spec fn view(&self) -> Val { value_val(*self) } }

impl<'k> Clone for Str<'k> {
    #[verifier::external_body]
    fn clone(&self) -> (r: Self) ensures r == *self { unimplemented!() }
}

// assumed (core/src/str.rs:178-190): `Str == Str` is equality of content
impl<'a, 'b> PartialEq<Str<'b>> for Str<'a> {
    #[verifier::external_body]
    fn eq(&self, other: &Str<'b>) -> bool { unimplemented!() }
}
impl<'a> Eq for Str<'a> {}
impl<'a, 'b> vstd::std_specs::cmp::PartialEqSpecImpl<Str<'b>> for Str<'a> {
    open spec fn obeys_eq_spec() -> bool { true }
    open spec fn eq_spec(&self, other: &Str<'b>) -> bool { self@ == other@ }
}

// assumed (core/src/str.rs:110,125,150): the content of a `Str` is the `str` it was made from
impl<'k> Str<'k> {
    #[verifier::external_body]
    pub const fn new(k: &'static str) -> (r: Str<'static>) ensures r@ == k.spec_bytes() { unimplemented!() }
    #[verifier::external_body]
    pub const fn new_ref(k: &'k str) -> (r: Str<'k>) ensures r@ == k.spec_bytes() { unimplemented!() }
    #[verifier::external_body]
    pub const fn get(&self) -> (r: &str) ensures r.spec_bytes() == self@ { unimplemented!() }
}

// std: `str` equality (and matching a `&str` against a constant pattern, which Verus
// encodes as `==`) is equality of content
#[verifier::external_body]
pub proof fn axiom_str_eq()
    ensures forall|a: &str, b: &str| #![trigger a.spec_bytes(), b.spec_bytes()] (a == b) <==> (a.spec_bytes() == b.spec_bytes())
{}

// ---- lookup by enumeration (C02's contract for `Props::get`) -----------------------------
pub open spec fn first(s: Seq<Kv>, k: Key) -> Option<Val>
    decreases s.len()
{
    if s.len() == 0 { None } else if s[0].0 == k { Some(s[0].1) } else { first(s.drop_first(), k) }
}

// `Props::pull::<V>` = `get(key).and_then(|v| v.cast())` (core/src/props.rs:81-83): the cast
// of a value to an id type is a function of the value (FromValue for TraceId / SpanId, a
// Kani obligation, DESIGN.md C04)
pub uninterp spec fn cast_val<V>(v: Val) -> Option<V>;

pub open spec fn pulled<V>(kvs: Seq<Kv>, key: Key) -> Option<V> {
    match first(kvs, key) {
        Some(v) => cast_val::<V>(v),
        None => None,
    }
}

pub proof fn lemma_first_concat(a: Seq<Kv>, b: Seq<Kv>, k: Key)
    ensures first(a + b, k) == (if first(a, k) is Some { first(a, k) } else { first(b, k) })
    decreases a.len()
{
    if a.len() == 0 {
        assert(a + b =~= b);
    } else {
        assert((a + b).drop_first() =~= a.drop_first() + b);
        lemma_first_concat(a.drop_first(), b, k);
    }
}

// ---- the three well-known keys (real text) ------------------------------------------------
//@extract core/src/well_known.rs / const KEY_TRACE_ID
//@rules R1
//@end
//@extract core/src/well_known.rs / const KEY_SPAN_ID
//@rules R1
//@end
//@extract core/src/well_known.rs / const KEY_SPAN_PARENT
//@rules R1
//@end

pub open spec fn key_trace_id() -> Key { KEY_TRACE_ID.spec_bytes() }
pub open spec fn key_span_id() -> Key { KEY_SPAN_ID.spec_bytes() }
pub open spec fn key_span_parent() -> Key { KEY_SPAN_PARENT.spec_bytes() }

pub open spec fn is_id_key(k: Key) -> bool {
    k == key_trace_id() || k == key_span_id() || k == key_span_parent()
}
