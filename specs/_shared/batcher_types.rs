// ---------------------------------------------------------------------------------
// specs/_shared/batcher_types.rs — exec-side plumbing shared by the batcher units.
// Include inside `verus! { .. }` after `_shared/batcher_spec.rs`; the unit must have
// `use std::sync::{Arc, Mutex};` at its top (the extracted struct texts name them).
//
//   * real `trait Channel` (lib.rs:41-91) with a trait-level contract over `items()`;
//   * opaque `Watcher` / `Watchers` (Verus has no `Box<dyn FnOnce() + Send>`);
//   * real `Batch<T>`, `State<T>`, `Shared<T>` (std Mutex as a field);
//   * ghost twin `Metrics` of `InternalMetrics` (rule R6);
//   * view functions into the vocabulary of `_shared/batcher_spec.rs`.
// ---------------------------------------------------------------------------------

// std::sync::Mutex is only ever a *field type* here. Rule R4 (lock model): in extracted bodies the
// receiver `self.shared.state` of `.lock()` / `.try_lock()` is replaced by `lock_model(state)`, where the
// parameter `state: &mut State<T>` stands for the content of the mutex; the REAL method name that
// follows decides what happens:
//   * `lock()`     always yields the state (mutual exclusion trusted; waiting and poisoning ignored: `Ok`);
//   * `try_lock()` yields it only if the lock is free — `Err(WouldBlock)` is always possible, and then the
//     state is untouched.
// So `lock().unwrap()` never fails while `try_lock().unwrap()` / a skipped `if let Ok(..)` are judged.
#[verifier::external_type_specification]
#[verifier::external_body]
#[verifier::accept_recursive_types(T)]
pub struct ExMutex<T: ?Sized>(std::sync::Mutex<T>);

pub struct PoisonModel { pub _p: () }
pub struct WouldBlockModel { pub _p: () }
#[verifier::external]
impl core::fmt::Debug for PoisonModel { fn fmt(&self, f: &mut core::fmt::Formatter) -> core::fmt::Result { Ok(()) } }
#[verifier::external]
impl core::fmt::Debug for WouldBlockModel { fn fmt(&self, f: &mut core::fmt::Formatter) -> core::fmt::Result { Ok(()) } }

pub struct LockModel<'a, T> { pub st: &'a mut State<T> }

// verified shim: nothing but the pairing
pub fn lock_model<'a, T>(state: &'a mut State<T>) -> (r: LockModel<'a, T>)
    ensures *r.st == *old(state), *final(state) == *final(r.st),
{
    LockModel { st: state }
}

impl<'a, T> LockModel<'a, T> {
    #[verifier::external_body]
    pub fn lock(self) -> (r: Result<&'a mut State<T>, PoisonModel>)
        ensures r is Ok, *(r->Ok_0) == *old(self.st), *final(r->Ok_0) == *final(self.st),
    {
        unimplemented!()
    }

    #[verifier::external_body]
    pub fn try_lock(self) -> (r: Result<&'a mut State<T>, WouldBlockModel>)
        ensures
            r is Ok ==> *(r->Ok_0) == *old(self.st) && *final(r->Ok_0) == *final(self.st),
            r is Err ==> *final(self.st) == *old(self.st),
    {
        unimplemented!()
    }
}

// The channel contract (C06/C09): an implementation is a FIFO container whose content is
// `items()`. Everything the sender and receiver prove is relative to this contract.
// (header override: `: Sized` is added — Verus needs it to name the result of `new() -> Self` in a
// contract; every implementation is a sized type and `with_capacity` already demands it.)
//@extract batcher/src/lib.rs / trait Channel
//@rules R1 R2
//@header
trait Channel: Sized
//@members
    /// ghost: the items pushed onto the channel and not cleared, oldest first
    spec fn items(&self) -> Seq<Self::Item>;
//@fn new
//@ret r
//@sig
        ensures r.items().len() == 0,
//@fn with_capacity
//@ret r
//@sig
        ensures r.items().len() == 0,
//@fn push
//@sig
        ensures final(self).items() == old(self).items().push(item),
//@fn len
//@ret r
//@sig
        ensures r == self.items().len(),
//@fn is_empty
//@ret r
//@sig
        ensures r == (self.items().len() == 0),
//@fn clear
//@sig
        ensures final(self).items().len() == 0,
//@end

// `type Watcher = Box<dyn FnOnce() + Send>` (lib.rs:712) and `struct Watchers` (lib.rs:707) are
// declared opaque: Verus rejects `dyn` with more than one trait. A watcher is known by a ghost id;
// the two lists are known by the sequence of ids they hold. Their bodies are not verified here: the contracts
// below are the clauses of watchers_contract.rs, which batcher_watchers.vx PROVES for the real text of
// `impl Watchers` (any number of watchers).
//@include watchers_contract.rs
#[verifier::external_body]
pub struct Watcher { f: Box<dyn FnOnce() + Send> }

impl Watcher {
    pub uninterp spec fn id(&self) -> int;
}

#[verifier::external_body]
pub struct Watchers {
    on_take: Vec<Watcher>,
    on_flush: Vec<Watcher>,
}

impl Watchers {
    pub uninterp spec fn on_take(&self) -> Seq<int>;
    pub uninterp spec fn on_flush(&self) -> Seq<int>;

    // lib.rs:721-726 `Watchers { on_take: Vec::new(), on_flush: Vec::new() }`
    #[verifier::external_body]
    pub fn new() -> (r: Self)
        ensures watchers_empty(r.on_take(), r.on_flush()),
    {
        Watchers { on_take: Vec::new(), on_flush: Vec::new() }
    }

    // lib.rs:728-730 `self.on_flush.push(watcher)`
    #[verifier::external_body]
    pub fn push_on_flush(&mut self, watcher: Watcher)
        ensures watchers_pushed(old(self).on_flush(), old(self).on_take(), watcher.id(), final(self).on_flush(), final(self).on_take()),
    {
        self.on_flush.push(watcher);
    }

    // lib.rs:738-740 `self.on_take.push(watcher)`
    #[verifier::external_body]
    pub fn push_on_take(&mut self, watcher: Watcher)
        ensures watchers_pushed(old(self).on_take(), old(self).on_flush(), watcher.id(), final(self).on_take(), final(self).on_flush()),
    {
        self.on_take.push(watcher);
    }
}

// lib.rs:714-718 `impl Default for Watchers { fn default() -> Self { Watchers::new() } }`
impl Default for Watchers {
    #[verifier::external_body]
    fn default() -> (r: Self)
        ensures watchers_empty(r.on_take(), r.on_flush()),
    {
        Watchers::new()
    }
}

//@extract batcher/src/lib.rs / struct Batch
//@rules R1 R2
//@end

// The constructors of a batch (real bodies): a fresh batch has no items AND no watchers — so replacing the
// pending batch by a fresh one is not the same as clearing its channel: the parked watchers are dropped.
//@extract batcher/src/lib.rs / impl Batch<T> / fn new
//@rules R1 R2
//@ret r
//@sig
        ensures batch_empty(batch_view(r)),
//@end
//@extract batcher/src/lib.rs / impl Default for Batch<T> / fn default
//@rules R1 R2
//@ret r
//@sig
        ensures batch_empty(batch_view(r)),
//@end

// std::mem on a batch / its parts (trusted)
pub assume_specification<T> [core::mem::replace::<T>](dest: &mut T, src: T) -> (r: T)
    ensures r == *old(dest), *final(dest) == src;
pub assume_specification<T: Default> [core::mem::take::<T>](dest: &mut T) -> (r: T)
    ensures r == *old(dest), T::default.ensures((), *final(dest));
// (`core::mem::swap` already has a vstd specification)

//@extract batcher/src/lib.rs / struct State
//@rules R1 R2
//@end

// `InternalMetrics` is generated by the `metrics!` macro (internal_metrics.rs:49-56) from atomic
// `Counter`s. Rule R6: in extracted bodies the path `self.shared.metrics` is replaced by a parameter
// `metrics: &mut Metrics`, so the *real* text `.queue_full_truncated.increment()` (counter name
// included) runs against this ghost twin: same field names, `increment` adds one (it takes `&mut self`
// where the atomic original takes `&self`).
#[verifier::external_body]
pub struct InternalMetrics { _opaque: () }

pub struct Counter { pub n: Ghost<nat> }

impl Counter {
    pub fn increment(&mut self)
        ensures final(self).n@ == old(self).n@ + 1,
    {
        self.n = Ghost(self.n@ + 1);
    }
}

pub struct Metrics {
    pub queue_full_truncated: Counter,
    pub queue_full_blocked: Counter,
    pub queue_batch_processed: Counter,
    pub queue_batch_failed: Counter,
    pub queue_batch_panicked: Counter,
    pub queue_batch_retry: Counter,
}

/// the six counters as a tuple (frame conditions compare it)
pub open spec fn metrics_view(m: Metrics) -> (nat, nat, nat, nat, nat, nat) {
    (m.queue_full_truncated.n@, m.queue_full_blocked.n@, m.queue_batch_processed.n@,
     m.queue_batch_failed.n@, m.queue_batch_panicked.n@, m.queue_batch_retry.n@)
}

//@extract batcher/src/lib.rs / struct Shared
//@rules R1 R2
//@end

pub open spec fn batch_view<T: Channel>(b: Batch<T>) -> BatchView<T::Item> {
    BatchView { items: b.channel.items(), on_take: b.watchers.on_take(), on_flush: b.watchers.on_flush() }
}

pub open spec fn state_view<T: Channel>(s: State<T>) -> ChanView<T::Item> {
    ChanView { next: batch_view(s.next_batch), is_open: s.is_open, is_in_batch: s.is_in_batch }
}
