// Shared by file_set and file_on_batch: the functions of emitter/file/src/lib.rs around the file SET (membership,
// retention, listing, naming fields, rolling counter) -- extracted and proved wherever this file is included -- and
// their contract vocabulary.
// (expects file_types.rs + file_batch.rs before it; the unit header defines the `split_mirror!` / `iter_mirror!` macros
//  and has `use vstd::string::*; use core::time::Duration; use core::cmp::Ordering;`)

// =====================================================================================
// (b) membership of a file name in a file set  (emitter/file/src/lib.rs, fn is_file_set_member)
// =====================================================================================
pub open spec fn DOT() -> u8 { 0x2e }
pub open spec fn is_prefix(p: Seq<u8>, s: Seq<u8>) -> bool { p.len() <= s.len() && s.subrange(0, p.len() as int) =~= p }
pub open spec fn is_suffix(p: Seq<u8>, s: Seq<u8>) -> bool { p.len() <= s.len() && s.subrange(s.len() - p.len(), s.len() as int) =~= p }
// number of '.' bytes
pub open spec fn dots(s: Seq<u8>) -> nat
    decreases s.len()
{
    if s.len() == 0 { 0 } else { dots(s.drop_last()) + if s.last() == DOT() { 1nat } else { 0nat } }
}
pub open spec fn middle_of(name: Seq<u8>, prefix: Seq<u8>, ext: Seq<u8>) -> Seq<u8> {
    name.subrange(prefix.len() as int, name.len() - ext.len())
}
// `name` is  prefix "." a "." b "." c "." ext  with a, b, c free of '.'  (counting form): the SHAPE
pub open spec fn shape_name(name: Seq<u8>, prefix: Seq<u8>, ext: Seq<u8>) -> bool {
    &&& name.len() >= prefix.len() + ext.len()
    &&& is_prefix(prefix, name)
    &&& is_suffix(ext, name)
    &&& ({
        let m = middle_of(name, prefix, ext);
        m.len() >= 2 && m[0] == DOT() && m[m.len() - 1] == DOT() && dots(m) == 4
    })
}
// the three segments are what `file_ts` / `file_id` produce (F32: a foreign `app.meeting.notes.draft.log` has the shape)
pub open spec fn is_dec(b: u8) -> bool { 48 <= b <= 57 }                       // '0'..'9'
pub open spec fn is_hexl(b: u8) -> bool { is_dec(b) || 97 <= b <= 102 }        // '0'..'9' 'a'..'f'
pub open spec fn period_byte(b: u8) -> bool { is_dec(b) || b == 45 }           // digits and '-'
pub open spec fn period_ok(a: Seq<u8>) -> bool { a.len() > 0 && forall|j: int| 0 <= j < a.len() ==> period_byte(#[trigger] a[j]) }
pub open spec fn millis_ok(b: Seq<u8>) -> bool { b.len() >= 8 && forall|j: int| 0 <= j < b.len() ==> is_dec(#[trigger] b[j]) }
pub open spec fn id_ok(c: Seq<u8>) -> bool { c.len() == 8 && forall|j: int| 0 <= j < c.len() ==> is_hexl(#[trigger] c[j]) }
// the position of the next '.' at or after `from` (`from` itself beyond the end)
pub open spec fn next_dot(m: Seq<u8>, from: int) -> int
    decreases m.len() - from
{
    if from < 0 || from >= m.len() { from } else if m[from] == DOT() { from } else { next_dot(m, from + 1) }
}
// m = "." period "." millis "." id "."
pub open spec fn strict_segments(m: Seq<u8>) -> bool {
    let e1 = next_dot(m, 1);
    let e2 = next_dot(m, e1 + 1);
    let e3 = next_dot(m, e2 + 1);
    &&& e3 + 1 == m.len()
    &&& period_ok(m.subrange(1, e1)) && millis_ok(m.subrange(e1 + 1, e2)) && id_ok(m.subrange(e2 + 1, e3))
}
// MEMBERSHIP: the shape, and the segments of the naming scheme
pub open spec fn own_name(name: Seq<u8>, prefix: Seq<u8>, ext: Seq<u8>) -> bool {
    shape_name(name, prefix, ext) && strict_segments(middle_of(name, prefix, ext))
}
proof fn lemma_next_dot(m: Seq<u8>, from: int)
    requires 0 <= from
    ensures
        from <= next_dot(m, from),
        from < m.len() ==> next_dot(m, from) <= m.len(),
        next_dot(m, from) < m.len() ==> m[next_dot(m, from)] == DOT(),
        forall|j: int| from <= j < next_dot(m, from) && j < m.len() ==> m[j] != DOT(),
    decreases m.len() - from
{
    if from < m.len() && m[from] != DOT() { lemma_next_dot(m, from + 1); }
}

// one more byte: the count grows iff it is a '.'
proof fn lemma_dots_step(s: Seq<u8>, i: int)
    requires 0 <= i < s.len()
    ensures dots(s.subrange(0, i + 1)) == dots(s.subrange(0, i)) + (if s[i] == DOT() { 1nat } else { 0nat })
{
    assert(s.subrange(0, i + 1).drop_last() =~= s.subrange(0, i));
}

#[verifier::loop_isolation(false)]
//@extract emitter/file/src/lib.rs / fn is_file_set_member
//@rules R1 R2
//@ret r
//@sig
    requires
        // `separators` is an i32 counter: names longer than i32::MAX bytes could overflow it
        file_name.spec_bytes().len() <= i32::MAX,
    ensures
        r == own_name(file_name.spec_bytes(), file_prefix.spec_bytes(), file_ext.spec_bytes()),
//@after let middle
    assert(middle@ =~= middle_of(file_name@, file_prefix@, file_ext@));
    let ghost m = middle@;
//@loop 0
        invariant
            0 <= i <= middle@.len(),
            middle@.len() <= i32::MAX,
            separators == dots(middle@.subrange(0, i as int)),
            0 <= separators <= i,
        decreases middle@.len() - i
//@inside-start while
        proof { lemma_dots_step(middle@, i as int); }
//@after while
    assert(middle@.subrange(0, i as int) =~= middle@);
// the three segment scans: each stops ON the next '.', having seen only bytes of the segment's class
//@after let ts_len
    let ghost e1 = next_dot(m, 1);
    proof { lemma_next_dot(m, 1); }
//@loop 1
        invariant
            1 <= i <= e1 <= m.len(), m.len() <= i32::MAX, m.len() >= 2,
            ts_len == i - 1,
            forall|j: int| 1 <= j < i ==> period_byte(#[trigger] m[j]),
        decreases m.len() - i
//@inside-start while#1
        proof {
            if i as int == e1 { assert(false); }
            assert(m.subrange(1, e1)[i as int - 1] == m[i as int]);
        }
//@after let millis_len
    let ghost s2 = i as int;
    let ghost e2 = next_dot(m, s2);
    proof {
        assert(i == e1 + 1);
        lemma_next_dot(m, s2);
        assert forall|j: int| 0 <= j < m.subrange(1, e1).len() implies period_byte(#[trigger] m.subrange(1, e1)[j]) by { assert(period_byte(m[j + 1])); }
    }
//@loop 2
        invariant
            s2 <= i <= e2, (s2 < m.len() ==> e2 <= m.len()), m.len() <= i32::MAX,
            millis_len == i - s2,
            forall|j: int| s2 <= j < i ==> is_dec(#[trigger] m[j]),
        decreases m.len() - i
//@inside-start while#2
        proof {
            if i as int == e2 { assert(false); }
            assert(m.subrange(s2, e2)[i as int - s2] == m[i as int]);
        }
//@after let id_len
    let ghost s3 = i as int;
    let ghost e3 = next_dot(m, s3);
    proof {
        assert(i == e2 + 1);
        lemma_next_dot(m, s3);
        assert forall|j: int| 0 <= j < m.subrange(s2, e2).len() implies is_dec(#[trigger] m.subrange(s2, e2)[j]) by { assert(is_dec(m[j + s2])); }
    }
//@loop 3
        invariant
            s3 <= i <= e3, (s3 < m.len() ==> e3 <= m.len()), m.len() <= i32::MAX,
            id_len == i - s3,
            forall|j: int| s3 <= j < i ==> is_hexl(#[trigger] m[j]),
        decreases m.len() - i
//@inside-start while#3
        proof {
            if i as int == e3 { assert(false); }
            assert(m.subrange(s3, e3)[i as int - s3] == m[i as int]);
        }
//@after while#3
    proof {
        assert(i == e3);
        if e3 <= m.len() {
            assert forall|j: int| 0 <= j < m.subrange(s3, e3).len() implies is_hexl(#[trigger] m.subrange(s3, e3)[j]) by { assert(is_hexl(m[j + s3])); }
        }
    }
//@end

// ---- what membership means, and why two file sets never share a name ----
proof fn lemma_dots_concat(a: Seq<u8>, b: Seq<u8>)
    ensures dots(a + b) == dots(a) + dots(b)
    decreases b.len()
{
    if b.len() == 0 {
        assert(a + b =~= a);
    } else {
        assert((a + b).drop_last() =~= a + b.drop_last());
        lemma_dots_concat(a, b.drop_last());
    }
}
proof fn lemma_dots_one(x: u8)
    ensures dots(seq![x]) == (if x == DOT() { 1nat } else { 0nat })
{
    reveal_with_fuel(dots, 2);
    assert(seq![x].drop_last() =~= Seq::<u8>::empty());
    assert(seq![x].last() == x);
}
// a byte that is a '.' is counted
proof fn lemma_dots_pos(s: Seq<u8>, i: int)
    requires 0 <= i < s.len(), s[i] == DOT()
    ensures dots(s) >= 1
    decreases s.len()
{
    if i < s.len() - 1 { lemma_dots_pos(s.drop_last(), i); }
}
// a sequence with a '.' splits at its first '.'
proof fn lemma_first_dot(s: Seq<u8>) -> (i: int)
    requires dots(s) >= 1
    ensures 0 <= i < s.len(), s[i] == DOT(), dots(s.subrange(0, i)) == 0, dots(s.subrange(i + 1, s.len() as int)) == dots(s) - 1
    decreases s.len()
{
    let t = s.drop_last();
    if dots(t) >= 1 {
        let i = lemma_first_dot(t);
        assert(t.subrange(0, i) =~= s.subrange(0, i));
        assert(s.subrange(i + 1, s.len() as int) =~= t.subrange(i + 1, t.len() as int) + seq![s.last()]);
        lemma_dots_concat(t.subrange(i + 1, t.len() as int), seq![s.last()]);
        lemma_dots_one(s.last());
        i
    } else {
        let i = s.len() - 1;
        assert(s.subrange(0, i) =~= t);
        assert(s.subrange(i + 1, s.len() as int) =~= Seq::<u8>::empty());
        i
    }
}

// the property's wording: prefix "." a "." b "." c "." ext  with a, b, c free of '.'
// (a = period, b = millisecond counter, c = random id in names built by `file_name`)
pub open spec fn dot() -> Seq<u8> { seq![DOT()] }
pub open spec fn has_shape(name: Seq<u8>, prefix: Seq<u8>, ext: Seq<u8>, a: Seq<u8>, b: Seq<u8>, c: Seq<u8>) -> bool {
    dots(a) == 0 && dots(b) == 0 && dots(c) == 0
    // a is a period (digits and '-'), b a counter of at least 8 digits, c an id of exactly 8 lower-case hex digits
    && period_ok(a) && millis_ok(b) && id_ok(c)
    && name =~= prefix + dot() + a + dot() + b + dot() + c + dot() + ext
}
// the next '.' is at e when e holds one and nothing before it does
proof fn lemma_next_dot_at(m: Seq<u8>, from: int, e: int)
    requires 0 <= from <= e < m.len(), m[e] == DOT(), forall|j: int| from <= j < e ==> m[j] != DOT()
    ensures next_dot(m, from) == e
    decreases e - from
{
    if from < e { lemma_next_dot_at(m, from + 1, e); }
}
proof fn lemma_no_dots(b: Seq<u8>)
    requires forall|i: int| 0 <= i < b.len() ==> b[i] != DOT()
    ensures dots(b) == 0
    decreases b.len()
{
    if b.len() > 0 { lemma_no_dots(b.drop_last()); }
}
pub open spec fn own_shape(name: Seq<u8>, prefix: Seq<u8>, ext: Seq<u8>) -> bool {
    exists|a: Seq<u8>, b: Seq<u8>, c: Seq<u8>| has_shape(name, prefix, ext, a, b, c)
}

proof fn lemma_shape_is_own(name: Seq<u8>, prefix: Seq<u8>, ext: Seq<u8>, a: Seq<u8>, b: Seq<u8>, c: Seq<u8>)
    requires has_shape(name, prefix, ext, a, b, c)
    ensures own_name(name, prefix, ext)
{
    let m = dot() + a + dot() + b + dot() + c + dot();
    assert(name =~= prefix + m + ext);
    assert(middle_of(name, prefix, ext) =~= m);
    lemma_dots_one(DOT());
    lemma_dots_concat(dot(), a);
    lemma_dots_concat(dot() + a, dot());
    lemma_dots_concat(dot() + a + dot(), b);
    lemma_dots_concat(dot() + a + dot() + b, dot());
    lemma_dots_concat(dot() + a + dot() + b + dot(), c);
    lemma_dots_concat(dot() + a + dot() + b + dot() + c, dot());
    // the segments: the dots of m sit at 0, 1+|a|, 2+|a|+|b|, 3+|a|+|b|+|c| and nowhere else
    let e1 = 1 + a.len() as int;
    let e2 = e1 + 1 + b.len();
    let e3 = e2 + 1 + c.len();
    assert forall|j: int| 1 <= j < e1 implies m[j] != DOT() by { assert(m[j] == a[j - 1]); assert(period_byte(a[j - 1])); }
    assert forall|j: int| e1 + 1 <= j < e2 implies m[j] != DOT() by { assert(m[j] == b[j - e1 - 1]); assert(is_dec(b[j - e1 - 1])); }
    assert forall|j: int| e2 + 1 <= j < e3 implies m[j] != DOT() by { assert(m[j] == c[j - e2 - 1]); assert(is_hexl(c[j - e2 - 1])); }
    assert(m[e1] == DOT() && m[e2] == DOT() && m[e3] == DOT() && m.len() == e3 + 1);
    lemma_next_dot_at(m, 1, e1);
    lemma_next_dot_at(m, e1 + 1, e2);
    lemma_next_dot_at(m, e2 + 1, e3);
    assert(m.subrange(1, e1) =~= a);
    assert(m.subrange(e1 + 1, e2) =~= b);
    assert(m.subrange(e2 + 1, e3) =~= c);
}

proof fn lemma_split_at(s: Seq<u8>, i: int)
    requires 0 <= i < s.len(), s[i] == DOT()
    ensures s =~= s.subrange(0, i) + dot() + s.subrange(i + 1, s.len() as int)
{
}
// pure re-association of concatenations (kept apart from the counting facts)
proof fn lemma_assemble(name: Seq<u8>, prefix: Seq<u8>, ext: Seq<u8>, m: Seq<u8>, inner: Seq<u8>, rest: Seq<u8>, a: Seq<u8>, b: Seq<u8>, c: Seq<u8>)
    requires
        name == prefix + m + ext,
        m == dot() + inner + dot(),
        inner == a + dot() + rest,
        rest == b + dot() + c,
    ensures
        name =~= prefix + dot() + a + dot() + b + dot() + c + dot() + ext
{
    let x1 = prefix + dot();
    let x2 = x1 + a;
    let x3 = x2 + dot();
    let x4 = x3 + b;
    let x5 = x4 + dot();
    let x6 = x5 + c;
    let x7 = x6 + dot();
    assert(x4 + (dot() + c) =~= x6);
    assert(x3 + rest =~= x6) by { assert(x3 + (b + (dot() + c)) =~= x4 + (dot() + c)); assert(rest =~= b + (dot() + c)); }
    assert(x1 + inner =~= x6) by { assert(inner =~= a + (dot() + rest)); assert(x1 + (a + (dot() + rest)) =~= x3 + rest); }
    assert(prefix + m =~= x7) by { assert(m =~= dot() + (inner + dot())); assert(prefix + (dot() + (inner + dot())) =~= (x1 + inner) + dot()); }
}

proof fn lemma_strip_ends(m: Seq<u8>) -> (inner: Seq<u8>)
    requires m.len() >= 2, m[0] == DOT(), m[m.len() - 1] == DOT()
    ensures m == dot() + inner + dot(), dots(m) == dots(inner) + 2
{
    let inner = m.subrange(1, m.len() - 1);
    assert(m =~= dot() + inner + dot());
    lemma_dots_one(DOT());
    lemma_dots_concat(dot(), inner);
    lemma_dots_concat(dot() + inner, dot());
    inner
}
proof fn lemma_split_first(s: Seq<u8>) -> (r: (Seq<u8>, Seq<u8>))
    requires dots(s) >= 1
    ensures dots(r.0) == 0, dots(r.1) == dots(s) - 1, s == r.0 + dot() + r.1
{
    let i = lemma_first_dot(s);
    lemma_split_at(s, i);
    (s.subrange(0, i), s.subrange(i + 1, s.len() as int))
}
proof fn lemma_name_parts(name: Seq<u8>, prefix: Seq<u8>, ext: Seq<u8>)
    requires name.len() >= prefix.len() + ext.len(), is_prefix(prefix, name), is_suffix(ext, name)
    ensures name == prefix + middle_of(name, prefix, ext) + ext
{
    assert(name =~= prefix + middle_of(name, prefix, ext) + ext);
}

proof fn lemma_own_is_shape(name: Seq<u8>, prefix: Seq<u8>, ext: Seq<u8>)
    requires own_name(name, prefix, ext)
    ensures own_shape(name, prefix, ext)
{
    let m = middle_of(name, prefix, ext);
    lemma_name_parts(name, prefix, ext);
    let e1 = next_dot(m, 1);
    let e2 = next_dot(m, e1 + 1);
    let e3 = next_dot(m, e2 + 1);
    lemma_next_dot(m, 1);
    lemma_next_dot(m, e1 + 1);
    lemma_next_dot(m, e2 + 1);
    let (a, b, c) = (m.subrange(1, e1), m.subrange(e1 + 1, e2), m.subrange(e2 + 1, e3));
    assert(m =~= dot() + a + dot() + b + dot() + c + dot());
    assert forall|i: int| 0 <= i < a.len() implies a[i] != DOT() by { assert(period_byte(a[i])); }
    assert forall|i: int| 0 <= i < b.len() implies b[i] != DOT() by { assert(is_dec(b[i])); }
    assert forall|i: int| 0 <= i < c.len() implies c[i] != DOT() by { assert(is_hexl(c[i])); }
    lemma_no_dots(a); lemma_no_dots(b); lemma_no_dots(c);
    assert(name =~= prefix + dot() + a + dot() + b + dot() + c + dot() + ext) by {
        assert(prefix + m + ext =~= prefix + dot() + a + dot() + b + dot() + c + dot() + ext);
    }
    assert(has_shape(name, prefix, ext, a, b, c));
}

// THEOREM 1: membership (what is_file_set_member computes) is exactly the naming scheme
proof fn theorem_own_name_iff_shape(name: Seq<u8>, prefix: Seq<u8>, ext: Seq<u8>)
    ensures own_name(name, prefix, ext) <==> own_shape(name, prefix, ext)
{
    if own_name(name, prefix, ext) { lemma_own_is_shape(name, prefix, ext); }
    if own_shape(name, prefix, ext) {
        let (a, b, c) = choose|a: Seq<u8>, b: Seq<u8>, c: Seq<u8>| has_shape(name, prefix, ext, a, b, c);
        lemma_shape_is_own(name, prefix, ext, a, b, c);
    }
}

// same extension, p1 no longer than p2: a shared name forces p1 == p2
proof fn lemma_same_ext_ordered(name: Seq<u8>, p1: Seq<u8>, p2: Seq<u8>, e: Seq<u8>)
    requires own_name(name, p1, e), own_name(name, p2, e), p1.len() <= p2.len()
    ensures p1 == p2
{
    if p1.len() < p2.len() {
        let m1 = middle_of(name, p1, e);
        let m2 = middle_of(name, p2, e);
        let x = name.subrange(p1.len() as int, p2.len() as int);
        assert(m1 =~= x + m2);
        lemma_dots_concat(x, m2);
        assert(x[0] == m1[0]);
        lemma_dots_pos(x, 0);
        assert(false);
    }
    assert(p1 =~= name.subrange(0, p1.len() as int));
    assert(p2 =~= name.subrange(0, p2.len() as int));
}

// THEOREM 2: with the same extension, file sets with different prefixes are disjoint -- whatever
// the prefixes are (`app` vs `app2`, `app` vs `app.debug`, a prefix that extends the other by
// anything, '.' included)
proof fn theorem_same_ext_disjoint(name: Seq<u8>, p1: Seq<u8>, p2: Seq<u8>, e: Seq<u8>)
    requires own_name(name, p1, e), own_name(name, p2, e)
    ensures p1 == p2
{
    if p1.len() <= p2.len() { lemma_same_ext_ordered(name, p1, p2, e); } else { lemma_same_ext_ordered(name, p2, p1, e); }
}

proof fn lemma_ext_ordered(name: Seq<u8>, p1: Seq<u8>, e1: Seq<u8>, p2: Seq<u8>, e2: Seq<u8>)
    requires own_name(name, p1, e1), own_name(name, p2, e2), dots(e2) == 0, e1.len() <= e2.len()
    ensures e1 == e2
{
    let l = name.len() as int;
    if e1.len() < e2.len() {
        // the '.' that ends the first middle part lies inside e2
        let m1 = middle_of(name, p1, e1);
        let pos = l - e1.len() - 1;
        assert(name[pos] == m1[m1.len() - 1]);
        assert(e2 =~= name.subrange(l - e2.len(), l));
        assert(e2[pos - (l - e2.len())] == name[pos]);
        lemma_dots_pos(e2, pos - (l - e2.len()));
        assert(false);
    }
    assert(e1 =~= name.subrange(l - e1.len(), l));
    assert(e2 =~= name.subrange(l - e2.len(), l));
}

// THEOREM 3: with extensions free of '.' (what `Path::extension()` / the default "log" give to
// dir_prefix_ext), a name belongs to at most one (prefix, extension) pair
proof fn theorem_sets_disjoint(name: Seq<u8>, p1: Seq<u8>, e1: Seq<u8>, p2: Seq<u8>, e2: Seq<u8>)
    requires own_name(name, p1, e1), own_name(name, p2, e2), dots(e1) == 0, dots(e2) == 0
    ensures p1 == p2 && e1 == e2
{
    if e1.len() <= e2.len() { lemma_ext_ordered(name, p1, e1, p2, e2); } else { lemma_ext_ordered(name, p2, e2, p1, e1); }
    theorem_same_ext_disjoint(name, p1, p2, e1);
}

// =====================================================================================
// (a) retention  (impl ActiveFileSet / fn apply_retention)
// =====================================================================================
//@extract emitter/file/src/lib.rs / struct ActiveFileSet
//@rules R1 R2
//@end

// the j-th deletion of a retention run over the list s0: the last name first
// (paths by their text: the directory's text joined with the name's text)
pub open spec fn retention_deletions(dir: Seq<char>, s0: Seq<String>, kept: int) -> Seq<FsEff> {
    Seq::new((s0.len() - kept) as nat, |j: int| FsEff::Remove(pv_join_str(pv_str(dir), s0[s0.len() - 1 - j]@)))
}
pub open spec fn retention_keeps(len: int, max_files: int) -> int {
    if len < max_files { len } else if max_files == 0 { 0 } else { max_files - 1 }
}

//@extract emitter/file/src/lib.rs / impl ActiveFileSet<'a> / fn apply_retention
//@rules R1 R2 R5 R9
//@param
    Tracked(tr): Tracked<&mut FsTrace>
//@sig
        ensures
            final(self).dir == old(self).dir,
            final(self).metrics == old(self).metrics,
            final(self).file_set@.len() == retention_keeps(old(self).file_set@.len() as int, max_files as int),
            final(self).file_set@ =~= old(self).file_set@.subrange(0, final(self).file_set@.len() as int),
            final(tr).log =~= old(tr).log + retention_deletions(old(self).dir@, old(self).file_set@, final(self).file_set@.len() as int),
//@inside-start start
        proof { axiom_path_text(); }
        let ghost s0 = old(self).file_set@;
        let ghost t0 = old(tr).log;
//@before while
        #[verifier::loop_isolation(false)]
//@loop 0
            invariant
                self.dir == old(self).dir,
                self.metrics == old(self).metrics,
                self.file_set@.len() <= s0.len(),
                self.file_set@ =~= s0.subrange(0, self.file_set@.len() as int),
                s0.len() < max_files ==> self.file_set@.len() == s0.len(),
                s0.len() >= max_files ==> self.file_set@.len() + 1 >= max_files,
                tr.log =~= t0 + retention_deletions(self.dir@, s0, self.file_set@.len() as int),
            decreases self.file_set@.len()
//@arg-each R9 mcall remove_file
    Tracked(tr)
//@end

// =====================================================================================
// (c) ActiveFileSet::read -- its tail: the names found are sorted NEWEST FIRST (descending), which
//     is what makes "retention pops from the end" mean "the oldest are deleted". The listing loop
//     (`Box<dyn Iterator<Item = PathBuf>>`, OsStr conversions) stays out of reach.
// =====================================================================================
// the order of strings: an uninterpreted total order (std: lexicographic by bytes)
pub uninterp spec fn str_cmp(a: Seq<char>, b: Seq<char>) -> Ordering;
pub open spec fn ord_rev(o: Ordering) -> Ordering {
    match o { Ordering::Less => Ordering::Greater, Ordering::Equal => Ordering::Equal, Ordering::Greater => Ordering::Less }
}
// std (trusted): `Ord for String` is that order and it is antisymmetric; `reverse`; a slice sorted by a
// comparator is a permutation in which no earlier element compares Greater than a later one
pub assume_specification [<String as Ord>::cmp](a: &String, b: &String) -> (r: Ordering)
    ensures r == str_cmp(a@, b@), str_cmp(b@, a@) == ord_rev(r);
pub assume_specification [Ordering::reverse](o: Ordering) -> (r: Ordering)
    ensures r == ord_rev(o);
pub assume_specification<T, F: FnMut(&T, &T) -> Ordering> [<[T]>::sort_by::<F>](s: &mut [T], compare: F)
    requires forall|a: &T, b: &T| call_requires(compare, (a, b)),
    ensures
        final(s)@.to_multiset() == old(s)@.to_multiset(),
        forall|i: int, j: int| #![trigger final(s)@[i], final(s)@[j]] 0 <= i < j < final(s)@.len()
            ==> exists|o: Ordering| #[trigger] call_ensures(compare, (&final(s)@[i], &final(s)@[j]), o) && o != Ordering::Greater;
// the siblings a change could swap in, with the same meaning
pub assume_specification<T, F: FnMut(&T, &T) -> Ordering> [<[T]>::sort_unstable_by::<F>](s: &mut [T], compare: F)
    requires forall|a: &T, b: &T| call_requires(compare, (a, b)),
    ensures
        final(s)@.to_multiset() == old(s)@.to_multiset(),
        forall|i: int, j: int| #![trigger final(s)@[i], final(s)@[j]] 0 <= i < j < final(s)@.len()
            ==> exists|o: Ordering| #[trigger] call_ensures(compare, (&final(s)@[i], &final(s)@[j]), o) && o != Ordering::Greater;

// newest first: no earlier name is smaller than a later one
pub open spec fn sorted_desc(s: Seq<String>) -> bool {
    forall|i: int, j: int| #![trigger s[i], s[j]] 0 <= i < j < s.len() ==> str_cmp(s[i]@, s[j]@) != Ordering::Less
}

// ---- what `read` adopts from a listing ----
pub open spec fn views(s: Seq<String>) -> Seq<Seq<char>> { Seq::new(s.len(), |i: int| s[i]@) }
pub open spec fn name_bytes(t: Seq<char>) -> Seq<u8> { vstd::utf8::encode_utf8(t) }
// a listed path is adopted IFF it has a file name, the name is valid UTF-8, and the name is a member of the set
pub open spec fn adopt_one(v: PathV, prefix: Seq<char>, ext: Seq<char>) -> Option<Seq<char>> {
    match pv_name_text(v) {
        Some(t) => if own_name(name_bytes(t), name_bytes(prefix), name_bytes(ext)) { Some(t) } else { None },
        None => None,
    }
}
// the names adopted from a listing, in listing order
pub open spec fn adopted(l: Seq<PathV>, prefix: Seq<char>, ext: Seq<char>) -> Seq<Seq<char>>
    decreases l.len()
{
    if l.len() == 0 { Seq::<Seq<char>>::empty() } else {
        let a = adopted(l.drop_last(), prefix, ext);
        match adopt_one(l.last(), prefix, ext) { Some(t) => a.push(t), None => a }
    }
}
// every name of the list is a member of the set (prefix "." a "." b "." c "." ext, see THEOREM 1)
pub open spec fn all_own(s: Seq<String>, prefix: Seq<char>, ext: Seq<char>) -> bool {
    forall|i: int| 0 <= i < s.len() ==> own_name(name_bytes(#[trigger] s[i]@), name_bytes(prefix), name_bytes(ext))
}
// the list `s` a `read` leaves behind, given what the file system listed (None: the listing failed)
pub open spec fn read_result(lst: Option<Seq<PathV>>, s: Seq<String>, prefix: Seq<char>, ext: Seq<char>) -> bool {
    &&& match lst {
        // a failed listing leaves the set EMPTY (never the stale list of an earlier read)
        None => s.len() == 0,
        // exactly the adopted names, permuted ..
        Some(l) => exists|pre: Seq<String>| #[trigger] views(pre) =~= adopted(l, prefix, ext) && s.to_multiset() == pre.to_multiset(),
    }
    // .. newest (largest) first
    &&& sorted_desc(s)
    &&& all_own(s, prefix, ext)
}
// effect + result of one `read`: exactly one listing, of the set's own directory
pub open spec fn read_outcome(dir: Seq<char>, s: Seq<String>, prefix: Seq<char>, ext: Seq<char>, l0: Seq<FsEff>, l1: Seq<FsEff>) -> bool {
    &&& l1.len() == l0.len() + 1 && l1.drop_last() =~= l0
    &&& match l1.last() {
        FsEff::ReadDir(p, lst) => p == pv_str(dir) && read_result(lst, s, prefix, ext),
        _ => false,
    }
}
// the last effect is a listing that succeeded
pub open spec fn listing_ok(l: Seq<FsEff>) -> bool {
    l.len() > 0 && match l.last() { FsEff::ReadDir(_, lst) => lst is Some, _ => false }
}
pub open spec fn read_post(fs0: ActiveFileSet, fs1: ActiveFileSet, prefix: Seq<char>, ext: Seq<char>, l0: Seq<FsEff>, l1: Seq<FsEff>,
                           r: Result<(), io::Error>) -> bool {
    &&& fs1.dir == fs0.dir && fs1.metrics == fs0.metrics
    &&& read_outcome(fs0.dir@, fs1.file_set@, prefix, ext, l0, l1)
    // an Err of the listing is propagated (and only that)
    &&& r is Ok == listing_ok(l1)
}

proof fn lemma_adopted_step(l: Seq<PathV>, k: int, prefix: Seq<char>, ext: Seq<char>)
    requires 0 <= k < l.len()
    ensures adopted(l.take(k + 1), prefix, ext) == (match adopt_one(l[k], prefix, ext) {
            Some(t) => adopted(l.take(k), prefix, ext).push(t), None => adopted(l.take(k), prefix, ext) })
{
    assert(l.take(k + 1).drop_last() =~= l.take(k));
    assert(l.take(k + 1).last() == l[k]);
}
// std (trusted): `str::to_owned` copies the text -- in vstd

//@extract emitter/file/src/lib.rs / impl ActiveFileSet<'a> / fn empty
//@rules R1 R2
//@ret r
//@sig
        ensures r.dir == dir, r.metrics == metrics, r.file_set@.len() == 0,
//@end

//@extract emitter/file/src/lib.rs / impl ActiveFileSet<'a> / fn read
//@rules R1 R2 R9 R10 G3
//@ret r
//@param
    Tracked(tr): Tracked<&mut FsTrace>
//@arg-each R9 mcall read_dir_files
    Tracked(tr)
//@sig
        ensures read_post(*old(self), *final(self), file_prefix@, file_ext@, old(tr).log, final(tr).log, r),
//@inside-start start
        proof { axiom_path_text(); }
        let ghost l0 = tr.log;
//@after let read_dir
        let ghost paths = read_dir.remaining();
        let ghost listing = pvs(paths);
        proof {
            assert(tr.log.drop_last() =~= l0);
            assert(listing.take(0) =~= Seq::<PathV>::empty());
            assert(listing.take(paths.len() as int) =~= listing);
        }
//@loop 0
            invariant_except_break
                it.remaining().len() <= paths.len(),
            invariant
                it.obeys_prophetic_iter_laws(), it.decrease() is Some,
                it.remaining().len() <= paths.len(),
                listing == pvs(paths),
                listing.take(paths.len() as int) == listing,
                it.remaining() =~= paths.skip(paths.len() - it.remaining().len()),
                views(file_set@) =~= adopted(listing.take(paths.len() - it.remaining().len()), file_prefix@, file_ext@),
                all_own(file_set@, file_prefix@, file_ext@),
                short_names(listing),
            ensures
                views(file_set@) =~= adopted(listing, file_prefix@, file_ext@),
                all_own(file_set@, file_prefix@, file_ext@),
            decreases it.decrease()->Some_0,
//@inside-start for
            // `path` is paths[k]; both outcomes of the adoption test are stated up front
            let ghost k = paths.len() - it.remaining().len() - 1;
            proof {
                assert(paths.skip(k)[0] == paths[k]);
                assert(path == paths[k]);
                assert(it.remaining() =~= paths.skip(k + 1));
                assert(listing[k] == pathbuf_v(path));
                lemma_adopted_step(listing, k, file_prefix@, file_ext@);
            }
//@after for
        let ghost pre = file_set@;
//@before call Ok
        proof {
            // the sorted list is a permutation of `pre`: each of its names is one of the adopted names
            let fin = self.file_set@;
            fin.to_multiset_ensures();
            pre.to_multiset_ensures();
            assert(fin.to_multiset() == pre.to_multiset());
            assert forall|i: int| 0 <= i < fin.len() implies own_name(name_bytes(#[trigger] fin[i]@), name_bytes(file_prefix@), name_bytes(file_ext@)) by {
                assert(fin.contains(fin[i]));
                assert(fin.to_multiset().count(fin[i]) > 0);
                assert(pre.to_multiset().count(fin[i]) > 0);
                assert(pre.contains(fin[i]));
                let j = choose|j: int| 0 <= j < pre.len() && pre[j] == fin[i];
                assert(pre[j]@ == fin[i]@);
            }
            assert(views(pre) =~= adopted(listing, file_prefix@, file_ext@));
        }
//@closure 0
    -> (r: Ordering) ensures r == ord_rev(str_cmp(a@, b@))
//@end
// the file a (re)start may reuse: the FIRST name of the list = the newest (largest) after `read`
//@extract emitter/file/src/lib.rs / impl ActiveFileSet<'a> / fn current_file_name
//@rules R1 R2
//@ret r
//@sig
        ensures
            r is Some == (self.file_set@.len() > 0),
            r is Some ==> r->Some_0@ == self.file_set@[0]@,
//@closure 0
    -> (r: &str) ensures r@ == file_name@
//@end

// retention + newest-first order: every deleted name is <= every kept name (the OLDEST go), and the
// deletions themselves run smallest first
proof fn lemma_retention_deletes_oldest(s0: Seq<String>, kept: int)
    requires sorted_desc(s0), 0 <= kept <= s0.len()
    ensures
        forall|k: int, d: int| #![trigger s0[k], s0[d]] 0 <= k < kept <= d < s0.len() ==> str_cmp(s0[k]@, s0[d]@) != Ordering::Less,
        forall|j1: int, j2: int| #![trigger s0[s0.len() - 1 - j1], s0[s0.len() - 1 - j2]] 0 <= j1 < j2 < s0.len() - kept
            ==> str_cmp(s0[s0.len() - 1 - j2]@, s0[s0.len() - 1 - j1]@) != Ordering::Less,
{
}

// =====================================================================================
// (c2) read_file_name_ts: the period of a file is read from its name -- the 4th '.'-separated field
//      FROM THE END (`{prefix}.{ts}.{millis}.{id}.{ext}`; the prefix may contain '.')
// =====================================================================================
// the c-separated fields of a string, left to right: `fields_of` (_shared/file_types.rs; std `str::split(c)`)
pub struct FieldIter<'a> { pub rest: Ghost<Seq<Seq<char>>>, pub p: core::marker::PhantomData<&'a ()> }
// mirrors (trusted): split yields the fields left to right, rsplit right to left; nth(n) / last pick
#[verifier::external_body]
pub fn mirror_split<'a>(s: &'a str, c: char) -> (r: FieldIter<'a>) ensures r.rest@ == fields_of(s@, c) { unimplemented!() }
#[verifier::external_body]
pub fn mirror_rsplit<'a>(s: &'a str, c: char) -> (r: FieldIter<'a>) ensures r.rest@ == fields_of(s@, c).reverse() { unimplemented!() }
#[verifier::external_body]
pub fn mirror_nth<'a>(it: FieldIter<'a>, n: usize) -> (r: Option<&'a str>)
    ensures r is Some == (n < it.rest@.len()), r is Some ==> r->Some_0@ == it.rest@[n as int]
{ unimplemented!() }
#[verifier::external_body]
pub fn mirror_last<'a>(it: FieldIter<'a>) -> (r: Option<&'a str>)
    ensures r is Some == (it.rest@.len() > 0), r is Some ==> r->Some_0@ == it.rest@.last()
{ unimplemented!() }
// R10 stand-in for the error closure `|| io::Error::new(io::ErrorKind::Other, "..")` (the value is irrelevant)
#[verifier::external_body]
pub fn ts_not_found() -> io::Error { unimplemented!() }

//@extract emitter/file/src/lib.rs / fn read_file_name_ts
//@rules R1 R2 R10
//@ret r
//@wrap R10 mcall #1
    iter_mirror!($$)
//@wrap R10 mcall #2
    split_mirror!($$)
//@replace R10 closure#0
    ts_not_found
//@sig
    ensures ({
        let f = fields_of(file_name@, '.');
        &&& r is Ok == (f.len() >= 4)
        &&& r is Ok ==> r->Ok_0@ == f[f.len() - 4]
    }),
//@end

// =====================================================================================
// (d) the roll predicate: the closure given to `file.filter(..)` in Worker::on_batch
// =====================================================================================
// keep the active file iff the batch fits under the size limit and the period is unchanged
pub open spec fn roll_keep(size: int, remaining: int, max: int, file_ts: Seq<char>, now_ts: Seq<char>) -> bool {
    size + remaining <= max && file_ts == now_ts
}

// the roll decision b for a file: the separator that a file which needs recovery gets written FIRST counts (F31; C11:
// "the batch would take the current file past the size limit"). (`strict` is kept as a parameter for a future
// transitional form; it has no effect.)
pub open spec fn roll_decision(f: ActiveFile, sep: Seq<u8>, remaining: int, max: int, now_ts: Seq<char>, strict: bool, b: bool) -> bool {
    b == roll_keep(f.file_size_bytes + (if f.file_needs_recovery { sep.len() as int } else { 0 }), remaining, max, f.file_ts@, now_ts)
}

// std (trusted): Option::filter calls the predicate on a present value and keeps it iff it says so
pub assume_specification<T, P: FnOnce(&T) -> bool> [Option::<T>::filter::<P>](o: Option<T>, f: P) -> (r: Option<T>)
    requires o is Some ==> call_requires(f, (&o->Some_0,)),
    ensures
        o is None ==> r is None,
        o is Some ==> exists|b: bool| call_ensures(f, (&o->Some_0,), b) && r == (if b { o } else { None::<T> });

// the forwarding impls `Filesystem for &F` (lib.rs:1245) and `Filesystem for Box<F>` (:1270): needed to
// pass `&self.fs`; their real texts name `dyn File + Send + Sync` (rejected by Verus), so they are
// declared stubs that inherit the trait's contracts (trusted: each method is `(**self).m(path)`)
impl<'a, F: Filesystem + ?Sized> Filesystem for &'a F {
    #[verifier::external_body] fn create_dir_all(&self, path: &Path, Tracked(tr): Tracked<&mut FsTrace>) -> (r: io::Result<()>) { unimplemented!() }
    #[verifier::external_body] fn read_dir_files(&self, path: &Path, Tracked(tr): Tracked<&mut FsTrace>) -> (r: io::Result<DirFiles>) { unimplemented!() }
    #[verifier::external_body] fn sync_parent(&self, path: &Path) -> io::Result<()> { unimplemented!() }
    #[verifier::external_body] fn remove_file(&self, path: &Path, Tracked(tr): Tracked<&mut FsTrace>) -> io::Result<()> { unimplemented!() }
    #[verifier::external_body] fn open_new(&self, path: &Path) -> (r: io::Result<Box<dyn File>>) { unimplemented!() }
    #[verifier::external_body] fn open_existing(&self, path: &Path) -> (r: io::Result<Box<dyn File>>) { unimplemented!() }
}
impl<F: Filesystem + ?Sized> Filesystem for Box<F> {
    #[verifier::external_body] fn create_dir_all(&self, path: &Path, Tracked(tr): Tracked<&mut FsTrace>) -> (r: io::Result<()>) { unimplemented!() }
    #[verifier::external_body] fn read_dir_files(&self, path: &Path, Tracked(tr): Tracked<&mut FsTrace>) -> (r: io::Result<DirFiles>) { unimplemented!() }
    #[verifier::external_body] fn sync_parent(&self, path: &Path) -> io::Result<()> { unimplemented!() }
    #[verifier::external_body] fn remove_file(&self, path: &Path, Tracked(tr): Tracked<&mut FsTrace>) -> io::Result<()> { unimplemented!() }
    #[verifier::external_body] fn open_new(&self, path: &Path) -> (r: io::Result<Box<dyn File>>) { unimplemented!() }
    #[verifier::external_body] fn open_existing(&self, path: &Path) -> (r: io::Result<Box<dyn File>>) { unimplemented!() }
}

pub open spec fn roll_retention_post(was_read: bool, fs0: ActiveFileSet, fs1: ActiveFileSet, prefix: Seq<char>, ext: Seq<char>,
                                     max_files: int, l0: Seq<FsEff>, l1: Seq<FsEff>) -> bool {
    // the log when retention starts: one listing later iff the set was not read before
    let lm = if was_read { l0 } else { l1.take(l0.len() as int + 1) };
    // s = the list retention works on: the one read earlier in this batch, or the fresh listing
    exists|s: Seq<String>| {
        &&& was_read ==> s == fs0.file_set@
        &&& !was_read ==> l1.len() > l0.len() && read_outcome(fs0.dir@, s, prefix, ext, l0, lm)
        // newest first (a fresh listing always is; an earlier one if it was), so the deleted tail is the oldest
        &&& (was_read ==> sorted_desc(fs0.file_set@)) ==> sorted_desc(s)
        // room is left for the file about to be created: the limit is max_files - 1 (saturating)
        &&& fs1.file_set@.len() == retention_keeps(s.len() as int, if max_files >= 1 { max_files - 1 } else { 0 })
        &&& fs1.file_set@ =~= s.subrange(0, fs1.file_set@.len() as int)
        // effects, in order: the listing iff the set was not read before, then the deletions
        &&& l1 =~= lm + #[trigger] retention_deletions(fs0.dir@, s, fs1.file_set@.len() as int)
    }
}

// =====================================================================================
// (e) rolling_millis: the millisecond counter within the rolling period
// =====================================================================================
pub uninterp spec fn dur_secs(d: Duration) -> nat;
pub uninterp spec fn dur_nanos(d: Duration) -> nat;
// std (trusted): Duration is a normalised (secs, nanos < 1e9) pair; subtraction borrows one second
pub assume_specification [Duration::checked_sub](a: Duration, b: Duration) -> (r: Option<Duration>)
    ensures
        r is Some <==> (dur_secs(a) > dur_secs(b) || (dur_secs(a) == dur_secs(b) && dur_nanos(a) >= dur_nanos(b))),
        r is Some ==> (if dur_nanos(a) >= dur_nanos(b) {
                dur_secs(r->Some_0) == dur_secs(a) - dur_secs(b) && dur_nanos(r->Some_0) == dur_nanos(a) - dur_nanos(b)
            } else {
                dur_secs(r->Some_0) == dur_secs(a) - dur_secs(b) - 1 && dur_nanos(r->Some_0) == dur_nanos(a) + 1_000_000_000 - dur_nanos(b)
            });
pub assume_specification [Duration::as_millis](d: &Duration) -> (r: u128)
    ensures r == dur_secs(*d) * 1000 + dur_nanos(*d) / 1_000_000;
// the siblings a change could swap in, each with its std meaning over the same (secs, nanos) view, so
// that the swap is judged by rolling_millis' contract (`as_secs_f64`/`as_secs_f32` are left out: floats)
pub assume_specification [Duration::as_secs](d: &Duration) -> (r: u64)
    ensures r == dur_secs(*d);
pub assume_specification [Duration::as_micros](d: &Duration) -> (r: u128)
    ensures r == dur_secs(*d) * 1_000_000 + dur_nanos(*d) / 1_000;
pub assume_specification [Duration::as_nanos](d: &Duration) -> (r: u128)
    ensures r == dur_secs(*d) * 1_000_000_000 + dur_nanos(*d);
pub assume_specification [Duration::subsec_millis](d: &Duration) -> (r: u32)
    ensures r == dur_nanos(*d) / 1_000_000;
pub assume_specification [Duration::subsec_micros](d: &Duration) -> (r: u32)
    ensures r == dur_nanos(*d) / 1_000;
pub assume_specification [Duration::subsec_nanos](d: &Duration) -> (r: u32)
    ensures r == dur_nanos(*d);

// mirror of the `emit` crate's paths used by rolling_millis: the real type declarations of
// core/src/timestamp.rs, the real `duration_since`, and `from_parts` under the contract that
// specs/core_timestamp_from_parts.vx proves (imported here as an assumption)
pub mod emit {
    pub use self::timestamp::Timestamp;
    pub use self::clock::Clock;
    pub use self::rng::Rng;
    // mirrors of `emit::Clock` / `emit::Rng` (core/src/clock.rs, core/src/rng.rs) and of the impls through which
    // `Box<dyn ErasedClock + Send + Sync>` / `&Box<dyn ErasedRng + Send + Sync>` get their methods. ASSUMED (they are
    // the unwrap()s of Worker::on_batch and rolling_id): the clock can be read and the rng yields a value -- true of
    // SystemClock between 1970 and 9999 and of RandRng, the only ones spawn_inner installs.
    pub mod clock {
        use vstd::prelude::*;
        use super::timestamp::Timestamp;
        pub trait Clock {
            fn now(&self) -> (r: Option<Timestamp>)
                ensures r is Some, r->Some_0.wf();
        }
        impl<T: Clock + ?Sized> Clock for Box<T> {
            #[verifier::external_body] fn now(&self) -> (r: Option<Timestamp>) { unimplemented!() }
        }
        impl Clock for dyn super::super::ErasedClock {
            #[verifier::external_body] fn now(&self) -> (r: Option<Timestamp>) { unimplemented!() }
        }
    }
    pub mod rng {
        use vstd::prelude::*;
        pub trait Rng {
            fn gen_u64(&self) -> (r: Option<u64>)
                ensures r is Some;
        }
        impl<'a, T: Rng + ?Sized> Rng for &'a T {
            #[verifier::external_body] fn gen_u64(&self) -> (r: Option<u64>) { unimplemented!() }
        }
        impl<T: Rng + ?Sized> Rng for Box<T> {
            #[verifier::external_body] fn gen_u64(&self) -> (r: Option<u64>) { unimplemented!() }
        }
        impl Rng for dyn super::super::ErasedRng {
            #[verifier::external_body] fn gen_u64(&self) -> (r: Option<u64>) { unimplemented!() }
        }
    }
    pub mod timestamp {
        use vstd::prelude::*;
        use core::time::Duration;
        use super::super::{dur_secs, dur_nanos};
//@extract core/src/timestamp.rs / struct Timestamp
//@rules R1 R2
//@end
//@extract core/src/timestamp.rs / struct Parts
//@rules R1 R2
//@end
//@include calendar.rs

        // `#[derive(Default)]` on Parts (R1 reduces the derive list): all fields zero
        impl Default for Parts {
            #[verifier::external_body]
            fn default() -> (r: Self)
                ensures r.years == 0 && r.months == 0 && r.days == 0 && r.hours == 0 && r.minutes == 0 && r.seconds == 0 && r.nanos == 0
            { Parts { years: 0, months: 0, days: 0, hours: 0, minutes: 0, seconds: 0, nanos: 0 } }
        }

        impl Timestamp {
            // the type's invariant: `Timestamp::from_unix` only admits MIN..=MAX
            pub open spec fn wf(&self) -> bool { dur_secs(self.0) <= 253402300799 }

            // assumed: proved in specs/core_timestamp_to_parts.vx (same clauses)
            #[verifier::external_body]
            pub fn to_parts(&self) -> (r: Parts)
                requires self.wf(),
                ensures valid_parts(r), civil_secs(r) == dur_secs(self.0), r.nanos == dur_nanos(self.0),
            { unimplemented!() }

            // assumed: proved in specs/core_timestamp_from_parts.vx (same clause)
            #[verifier::external_body]
            pub fn from_parts(parts: Parts) -> (r: Option<Self>)
                ensures
                    valid_parts(parts) ==> r is Some && dur_secs(r->Some_0.0) == civil_secs(parts) && dur_nanos(r->Some_0.0) == parts.nanos,
                    r is Some ==> r->Some_0.wf(),
            { unimplemented!() }
        }

//@extract core/src/timestamp.rs / impl Timestamp / fn duration_since
//@rules R1 R2
//@ret r
//@sig
                ensures
                    r is Some <==> (dur_secs(self.0) > dur_secs(earlier.0) || (dur_secs(self.0) == dur_secs(earlier.0) && dur_nanos(self.0) >= dur_nanos(earlier.0))),
                    r is Some && dur_nanos(earlier.0) == 0 ==> dur_secs(r->Some_0) == dur_secs(self.0) - dur_secs(earlier.0) && dur_nanos(r->Some_0) == dur_nanos(self.0),
//@end
    }
}
use emit::timestamp::{valid_parts, civil_secs};

// what the counter is: milliseconds since the start of the current day / hour / minute
pub open spec fn millis_in_period(roll_by: RollBy, p: emit::timestamp::Parts) -> int {
    (match roll_by {
        RollBy::Day => p.hours * 3600 + p.minutes * 60 + p.seconds,
        RollBy::Hour => p.minutes * 60 + p.seconds,
        RollBy::Minute => p.seconds as int,
    }) * 1000 + p.nanos as int / 1_000_000
}

//@extract emitter/file/src/lib.rs / fn rolling_millis
//@rules R1 R2
//@ret r
//@sig
    requires
        // `parts` is `ts.to_parts()` (contract of specs/core_timestamp_to_parts.vx)
        ts.wf(),
        valid_parts(parts),
        civil_secs(parts) == dur_secs(ts.0),
        parts.nanos == dur_nanos(ts.0),
    ensures
        r == millis_in_period(roll_by, parts),
        r < 86_400_000,
        roll_by is Hour ==> r < 3_600_000,
        roll_by is Minute ==> r < 60_000,
//@end

