// Shared by core_template_eq / core_template_repr / core_template_writers: `Part::as_text` (real) and
// `Template::as_literal` (real, slice pattern rewritten).
//@extract core/src/template.rs / impl Part<'a> / fn as_text
//@rules R1 R2
//@ret r
//@sig
    ensures r == (match self.0 { PartKind::Text { value } => Some(&value), _ => None }),
//@end

// `Template::as_literal` (template.rs:132-137): the real body, except that Verus rejects the slice
// pattern `[part] =>`, which R10 writes as a length guard plus an index (the arm's body stays).
impl<'a> Template<'a> {
    pub open spec fn literal_spec(&self) -> Option<&Str<'a>> {
        if self@.len() == 1 { match self@[0].0 { PartKind::Text { value } => Some(&value), _ => None } } else { None }
    }
}
//@extract core/src/template.rs / impl Template<'a> / fn as_literal
//@rules R1 R2 R10
//@ret r
//@sig
    ensures r == self.literal_spec(),
//@splice R10 arm#0 | mcall#1
            ps if ps.len() == 1 => { let part = &ps[0]; $$ }
//@end
