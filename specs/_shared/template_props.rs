// Shared by the core_template_* units: mirrors of `Value` and `Props`.
// ---------- trusted mirrors ----------
// `emit_core::value::Value` (core/src/value.rs:30, a `value_bag::ValueBag`): opaque; `id` is what it holds
#[verifier::external_body]
pub struct Value<'v> { v: &'v u8 }
impl<'v> Value<'v> {
    pub uninterp spec fn id(&self) -> int;
}

// Mirror of `props::Props` (core/src/props.rs:57 `fn get<'v, K: ToStr>(&'v self, key: K) -> Option<Value<'v>>`,
// here with `K = &str`). `first` is C02's contract: the first value enumerated for the key, if any.
pub trait Props {
    spec fn first(&self, key: Seq<u8>) -> Option<int>;
    fn get<'v>(&'v self, key: &str) -> (r: Option<Value<'v>>)
        ensures match r { Some(v) => self.first(key.spec_bytes()) == Some(v.id()), None => self.first(key.spec_bytes()) is None };
}
// props.rs:126-147 `impl<'a, P: Props + ?Sized> Props for &'a P`: forwards to `**self`
impl<'a, P: Props + ?Sized> Props for &'a P {
    open spec fn first(&self, key: Seq<u8>) -> Option<int> { (**self).first(key) }
    #[verifier::external_body]
    fn get<'v>(&'v self, key: &str) -> (r: Option<Value<'v>>) { (**self).get(key) }
}
