// Shared by file_on_batch and (while a finding is open) its strict twin: the contract of Worker::on_batch and the
// extraction itself. The including unit defines `strict_mode()`: false = transitional disjunctions for a known finding
// whose fix is not yet in /repo, true = the property's letter.
// lib.rs: `use emit::clock::Clock;` (for `self.clock.now()`)
use emit::Clock;

//@extract emitter/file/src/lib.rs / impl EventBatch #0 / fn new
//@rules R1 R2
//@ret r
//@sig
        ensures r.wf(), r.bufs@.len() == 0, r.index == 0,
//@end

// =====================================================================================
// opening a file (stubs for the two call sites of on_batch)
// =====================================================================================
// resource bound (assumed): no file of this file system is longer than this (the size counter is a usize)
pub uninterp spec fn file_len_bound() -> nat;
// a file re-opened for reuse at p: recovery flagged, size counter = file length, directory entry published
pub open spec fn reopened<F: ?Sized>(fs: &F, p: PathV, f: ActiveFile) -> bool {
    &&& f.file_needs_recovery
    &&& f.file_size_bytes == f.file.content().len()
    &&& f.file.synced() <= f.file.flushed() <= f.file.content().len()
    &&& pathbuf_v(f.file_path) == p && opened_by(fs, p, false, true) && parent_synced_by(fs, p, true)
    &&& path_ts_of(p) == Some(f.file_ts@)
    &&& f.file_size_bytes <= file_len_bound()
}
// a file created (exclusively) at p: empty, clean, directory entry published
pub open spec fn created<F: ?Sized>(fs: &F, p: PathV, f: ActiveFile) -> bool {
    &&& !f.file_needs_recovery
    &&& f.file_size_bytes == 0
    &&& f.file.content() =~= Seq::<u8>::empty() && f.file.flushed() == 0 && f.file.synced() == 0
    &&& pathbuf_v(f.file_path) == p && opened_by(fs, p, true, true) && parent_synced_by(fs, p, true)
    &&& path_ts_of(p) == Some(f.file_ts@)
}
// R10 stand-ins for `ActiveFile::try_open_reuse(fs, &path)` / `try_open_create(fs, &path)` with `path: PathBuf`:
// ASSUMED = the contracts proved in file_write (_shared/file_write_spec.rs, same clauses) with the generic
// `file_path.as_ref()` resolved for `&PathBuf` (std, trusted: it is the path the buffer holds -- the blanket
// `impl AsRef<U> for &T` cannot be given an assumed specification in this Verus), plus the resource bound above
#[verifier::external_body]
pub fn open_reuse_at<F: Filesystem>(fs: F, file_path: &PathBuf) -> (r: Result<ActiveFile, io::Error>)
    ensures r is Ok ==> reopened(&fs, pathbuf_v(*file_path), r->Ok_0)
{ unimplemented!() }
#[verifier::external_body]
pub fn open_create_at<F: Filesystem>(fs: F, file_path: &PathBuf) -> (r: Result<ActiveFile, io::Error>)
    ensures r is Ok ==> created(&fs, pathbuf_v(*file_path), r->Ok_0)
{ unimplemented!() }

// =====================================================================================
// the contract of on_batch
// =====================================================================================
// ghost record of one run: the clock reading, the decisions and the effect log at the points where they are fixed
pub ghost struct Trail {
    pub now: emit::Timestamp,          // the clock reading (once, at the start)
    pub parts: emit::timestamp::Parts, // .. as calendar fields
    pub dir_ok: bool,                  // create_dir_all succeeded (only run without an active file)
    pub l_open: Seq<FsEff>,            // the log when the candidate is fixed
    pub set_open: Seq<String>,         // the set's list at that point (empty unless it was listed)
    pub cand: Option<ActiveFile>,      // the candidate: the active file, or the NEWEST file of the set re-opened
    pub l_listed: Seq<FsEff>,          // (roll) the log when retention starts
    pub set_roll: Seq<String>,         // (roll) the list retention works on
    pub set_kept: Seq<String>,         // (roll) the list it leaves
    pub rid: u32,                      // (roll) the random id of the new name
    pub l_roll: Seq<FsEff>,            // the log when the file to write to is fixed
    pub file: Option<ActiveFile>,      // the file the batch is written to; None: given up before (Err, whole batch back)
}
pub open spec fn taken(w: Worker) -> Worker { Worker { active_file: None, ..w } }
pub open spec fn sat_sub1(n: int) -> int { if n >= 1 { n - 1 } else { 0 } }

// (1) which file is the candidate
pub open spec fn open_ok(w0: Worker, l0: Seq<FsEff>, t: Trail) -> bool {
    let dirv = pv_str(w0.dir@);
    match w0.active_file {
        // an active file: nothing is created, listed or opened
        Some(f0) => t.dir_ok && t.l_open == l0 && t.set_open.len() == 0 && t.cand == Some(f0),
        None => if !t.dir_ok {
            // the directory could not be created: nothing else is done
            t.l_open == l0.push(FsEff::CreateDirAll(dirv, false)) && t.cand is None
        } else {
            // the directory is created, then listed EXACTLY ONCE (an Err of the listing is not an error: the set is empty)
            &&& read_outcome(w0.dir@, t.set_open, w0.file_prefix@, w0.file_ext@, l0.push(FsEff::CreateDirAll(dirv, true)), t.l_open)
            // a file is re-opened only if reuse is configured and the set has a file: its NEWEST one, in the set's own
            // directory (read_outcome: every name of the list is a member of this set); a failed re-open is not an error
            &&& t.cand is Some ==> {
                &&& w0.reuse_files && t.set_open.len() > 0
                &&& reopened(&&w0.fs, pv_join_str(dirv, t.set_open[0]@), t.cand->Some_0)
            }
        },
    }
}
// how many files the set may hold (a limit of 0 still keeps the file being written)
pub open spec fn sat_add1(n: int) -> int { if n + 1 > usize::MAX { usize::MAX as int } else { n + 1 } }
pub open spec fn keep_limit(w0: Worker) -> int { if w0.max_files == 0 { 1 } else { w0.max_files as int } }
// the name of a file created by this run
pub open spec fn new_name(w0: Worker, t: Trail) -> Seq<char> {
    spec_file_name(w0.file_prefix@, w0.file_ext@, parts_ts(w0.roll_by, t.parts),
                   spec_file_id(millis_in_period(w0.roll_by, t.parts) as nat, t.rid as nat))
}
// one retention run over the list t.set_roll (newest first, every name a member of this set): it keeps the first
// `retention_keeps(.., limit)` names and deletes the others, the OLDEST first
pub open spec fn retention_step(w0: Worker, t: Trail, limit: int) -> bool {
    &&& sorted_desc(t.set_roll) && all_own(t.set_roll, w0.file_prefix@, w0.file_ext@)
    &&& t.set_kept.len() == retention_keeps(t.set_roll.len() as int, limit)
    &&& t.set_kept =~= t.set_roll.subrange(0, t.set_kept.len() as int)
    &&& t.l_roll =~= t.l_listed + retention_deletions(w0.dir@, t.set_roll, t.set_kept.len() as int)
}
// (2a) the candidate is kept: nothing is created. If the set was listed in this run (the candidate is its NEWEST file,
// re-opened) retention still applies: the re-opened file counts towards the limit, so afterwards the set holds AT MOST
// max_files files, the re-opened one among them (C11 "after every batch the set holds at most the configured maximum
// ... for all pre-existing directory contents"; F31)
pub open spec fn kept_ok(w0: Worker, t: Trail, strict: bool) -> bool {
    &&& t.file == t.cand
    &&& if w0.active_file is None {
            ||| { &&& t.set_roll == t.set_open && t.l_listed == t.l_open
                  &&& retention_step(w0, t, sat_add1(keep_limit(w0)))
                  &&& 1 <= t.set_kept.len() <= keep_limit(w0) }
        } else { t.l_roll == t.l_open }
}
// (2b) roll: a new file
pub open spec fn rolled(w0: Worker, t: Trail) -> bool {
    let dirv = pv_str(w0.dir@);
    // the set is listed now IFF it was not listed before in this run (an active file was taken), so that ..
    &&& if w0.active_file is None { t.set_roll == t.set_open && t.l_listed == t.l_open }
        else { read_outcome(w0.dir@, t.set_roll, w0.file_prefix@, w0.file_ext@, t.l_open, t.l_listed) }
    // .. retention sees every file of the set; it leaves room for the file about to be created (max_files - 1)
    &&& retention_step(w0, t, sat_sub1(w0.max_files as int))
    &&& t.set_kept.len() + 1 <= keep_limit(w0)
    // then the new file: dir / prefix.period.counter.id.ext of the clock reading; created exclusively; a failure gives up
    &&& t.file is Some ==> created(&&w0.fs, pv_join_str(dirv, new_name(w0, t)), t.file->Some_0)
}
// (2) keep the candidate IFF the batch -- and the separator a file that needs recovery gets first -- fits under the
// size limit and the period is unchanged (roll_decision, _shared/file_set_fns.rs); otherwise roll
pub open spec fn roll_ok(w0: Worker, b0: EventBatch, t: Trail, strict: bool) -> bool {
    match t.cand {
        None => rolled(w0, t),
        Some(f) => exists|b: bool| #[trigger] roll_decision(f, w0.separator@, b0.remaining_bytes as int, w0.max_file_size_bytes as int,
                                                            parts_ts(w0.roll_by, t.parts), strict, b)
                    && (if b { kept_ok(w0, t, strict) } else { rolled(w0, t) }),
    }
}
pub open spec fn trail_ok(w0: Worker, b0: EventBatch, l0: Seq<FsEff>, t: Trail, strict: bool) -> bool {
    &&& t.now.wf() && valid_parts(t.parts) && civil_secs(t.parts) == dur_secs(t.now.0) && t.parts.nanos == dur_nanos(t.now.0)
    &&& open_ok(w0, l0, t)
    &&& if w0.active_file is None && !t.dir_ok { t.file is None && t.l_roll == t.l_open } else { roll_ok(w0, b0, t, strict) }
}
// (3) the outcome
pub open spec fn finish(w0: Worker, w1: Worker, b0: EventBatch, t: Trail, l1: Seq<FsEff>, r: Result<(), BatchError<EventBatch>>) -> bool {
    match t.file {
        // given up before any write: Err, retryable, with the WHOLE batch; no active file
        None => {
            &&& r is Err && r->Err_0.retryable == Some(b0)
            &&& w1 == taken(w0)
            &&& l1 == t.l_roll
        },
        // the write loop and the tail (file_write): Ok only after every event was written, flushed and synced, and
        // only then is there an active file again; a failed write hands back the unwritten (or not durable) events
        Some(f) => write_batch_post(taken(w0), w1, f, b0, t.l_roll, l1, r),
    }
}
pub open spec fn on_batch_post(w0: Worker, w1: Worker, b0: EventBatch, l0: Seq<FsEff>, l1: Seq<FsEff>, r: Result<(), BatchError<EventBatch>>, strict: bool) -> bool {
    exists|t: Trail| #[trigger] trail_ok(w0, b0, l0, t, strict) && finish(w0, w1, b0, t, l1, r)
}

//@extract emitter/file/src/lib.rs / impl Worker / fn on_batch
//@rules R1 R2 R5 R7 R9 R10
//@ret r
//@param
    Tracked(tr): Tracked<&mut FsTrace>
//@delete-each R5 mcall complete_with
//@replace R10 callee try_open_reuse
    open_reuse_at
//@replace R10 callee try_open_create
    open_create_at
//@arg-each R9 mcall create_dir_all
    Tracked(tr)
//@arg-each R9 mcall read
    Tracked(tr)
//@arg-each R9 mcall apply_retention
    Tracked(tr)
//@arg-each R9 mcall write_event
    Tracked(tr)
//@arg-each R9 mcall flush
    Tracked(tr)
//@arg-each R9 mcall sync_all
    Tracked(tr)
//@arg-each R9 mcall sync_data
    Tracked(tr)
//@sig
        requires
            batch0.wf(),
            // resource preconditions (counters are usize): the batch's buffers are live allocations; the file that
            // is written to -- the active one, or a re-opened one -- has room for the batch and one separator
            sum_from(batch0.bufs@, 0) <= usize::MAX,
            old(self).active_file is Some ==> old(self).active_file->Some_0.file_size_bytes + old(self).separator@.len() + batch0.remaining_bytes <= usize::MAX,
            file_len_bound() + old(self).separator@.len() + batch0.remaining_bytes <= usize::MAX,
        ensures
            on_batch_post(*old(self), *final(self), batch0, old(tr).log, final(tr).log, r, strict_mode()),
            // in particular: there is an active file afterwards ONLY on Ok
            final(self).active_file is Some ==> r is Ok,
            same_config(*old(self), *final(self)),
//@inside-start start
        proof { axiom_path_text(); }
        let ghost w0 = *self;
        let ghost l0 = tr.log;
        let ghost b0 = batch;      // == batch0 (R7 has re-bound the parameter)
        let ghost mut t: Trail = arbitrary();
//@after let parts
        proof { t.now = ts; t.parts = parts; }
// the directory could not be created: the run ends here
//@inside-start if#1
                proof {
                    t.dir_ok = false; t.l_open = tr.log; t.cand = None; t.l_roll = tr.log; t.file = None;
                    assert(trail_ok(w0, b0, l0, t, strict_mode()));
                }
// the candidate is fixed
//@after if#0
        proof {
            t.dir_ok = true; t.l_open = tr.log; t.set_open = file_set.file_set@; t.cand = file; t.l_roll = tr.log;
            assert(open_ok(w0, l0, t));
        }
//@closure 1
    -> (r: io::Error) ensures true
//@closure 2
    -> (r: io::Error) ensures true
//@closure 3
    -> (r: bool)
        requires file.file_size_bytes + self.separator@.len() + batch.remaining_bytes <= usize::MAX,
        ensures roll_decision(*file, self.separator@, batch.remaining_bytes as int, self.max_file_size_bytes as int, file_ts@, strict_mode(), r),
// the roll decision, as taken (the candidate survives the filter or not)
//@after mcall filter
        let ghost g_keep = file is Some;
//@closure 4
    -> (r: io::Error) ensures true
// every retention run (the roll branch; since F31 also a re-opened file that is kept): the list it starts from and
// what it leaves; the id drawn for the new name
//@before-each mcall apply_retention
            proof { t.set_roll = file_set.file_set@; t.l_listed = tr.log; }
//@after-each mcall apply_retention
            proof { t.set_kept = file_set.file_set@; t.l_roll = tr.log; }
//@after let file_id
            proof {
                let m = millis_in_period(self.roll_by, parts) as nat;
                t.rid = choose|x: u32| file_id@ == spec_file_id(m, x as nat);
            }
// the new file could not be created: the run ends here
//@before return#1
                    proof { t.file = None; assert(trail_ok(w0, b0, l0, t, strict_mode())); }
// the file the batch is written to is fixed
//@after let file#1
        proof {
            t.file = Some(file);
            assert(open_ok(w0, l0, t));
            if t.cand is None { assert(rolled(w0, t)); }
            else {
                let f = t.cand->Some_0;
                let now = parts_ts(w0.roll_by, t.parts);
                assert(roll_decision(f, w0.separator@, b0.remaining_bytes as int, w0.max_file_size_bytes as int, now, strict_mode(), g_keep));
                if g_keep { assert(kept_ok(w0, t, strict_mode())); } else { assert(rolled(w0, t)); }
            }
            assert(trail_ok(w0, b0, l0, t, strict_mode()));
        }
        let ghost f0 = file;
        let ghost sep = self.separator@;
        let ghost evs = ev_bytes(b0.items());
        let ghost c0 = file.file.content();
        let ghost lr = tr.log;
        let ghost nr0 = file.file_needs_recovery;
        let ghost bound = file.file_size_bytes + self.separator@.len() + b0.remaining_bytes;
        proof { assert(*self == taken(w0)); assert(batch == b0); }
//@closure 6
    -> (r: BatchError<EventBatch>) ensures r.retryable is None
//@closure 7
    -> (r: BatchError<EventBatch>) ensures r.retryable is None
//@loop 0
            invariant
                *self == taken(w0),
                trail_ok(w0, b0, l0, t, strict_mode()), t.file == Some(f0), t.l_roll == lr,
                sep == self.separator@,
                evs == ev_bytes(b0.items()),
                c0 == f0.file.content() && nr0 == f0.file_needs_recovery,
                b0 == batch0,
                b0.wf(),
                batch.wf(),
                batch.bufs@ =~= b0.bufs@,
                sum_from(batch.bufs@, 0) <= usize::MAX,
                b0.index <= batch.index <= b0.bufs@.len(),
                batch.items() =~= b0.items().skip(batch.index - b0.index),
                file.file.content() == wrote_c(c0, nr0, sep, evs, batch.index - b0.index),
                tr.log == wrote_l(lr, nr0, sep, evs, batch.index - b0.index),
                file.file_needs_recovery == (nr0 && batch.index == b0.index),
                file.file_size_bytes - f0.file_size_bytes == file.file.content().len() - c0.len(),
                file.file_size_bytes + (if file.file_needs_recovery { sep.len() } else { 0 }) + batch.remaining_bytes <= bound,
                bound <= usize::MAX,
                file.file.flushed() == f0.file.flushed(),
                file.file.synced() == f0.file.synced(),
                file.file_path == f0.file_path,
                file.file_ts == f0.file_ts,
            decreases batch.bufs@.len() - batch.index
//@before while
        #[verifier::loop_isolation(false)]
//@inside-start while
            proof {
                let k = batch.index - b0.index;
                assert(batch.items()[0] == b0.items()[k]);
                assert(evs[k] == buf@);
                assert(batch.remaining_bytes == batch.items()[0]@.len() + sum_from(batch.bufs@, batch.index + 1));
                lemma_sum_nonneg(batch.bufs@, batch.index + 1);
            }
// the write-failure branch: which event failed and the log right after the failed write (both are gone once the
// flush / sync attempt has run and the batch may have been rewound)
//@inside-start if#6
                let ghost gk = batch.index - b0.index;
                let ghost glw = tr.log;
//@before return#2
                proof {
                    // (a hint only: without a flush / sync attempt after the failed write nothing is named, and the
                    // function's postcondition judges)
                    if tr.log.len() > glw.len() {
                        // what happened to the file after the failed write, read off the log: durable iff it ends with a
                        // successful sync of the whole content (after a successful flush)
                        let durable = tr.log.len() == glw.len() + 2 && tr.log.last() == FsEff::Sync(true, file.file.content().len() as nat);
                        assert(write_event_rel(wrote_c(c0, nr0, sep, evs, gk), wrote_l(lr, nr0, sep, evs, gk), nr0 && gk == 0, sep, evs[gk],
                                               file.file.content(), glw, true, false));
                        assert(sync_attempt(file.file.content(), f0.file.synced(), glw, tr.log, durable));
                        assert(failed_then_sync_at(c0, lr, nr0, sep, evs, gk, f0.file.synced(), tr.log, durable));
                        assert(batch.index == (if durable { b0.index + gk } else { 0 }));
                    }
                }
//@end

