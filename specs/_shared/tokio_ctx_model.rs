// Model file of batcher_tokio_ctx.vx: the CALLING-CONTEXT model of the tokio calls that
// batcher/src/tokio.rs `blocking_flush` / `blocking_send` make, taken from tokio 1.x's documented panics
// (tokio 1.53.1: runtime/handle.rs `Handle::block_on` "# Panics ... called from within an asynchronous context, such as
// inside Runtime::block_on, Handle::block_on, or from a function annotated with tokio::main"; task/blocking.rs
// `block_in_place` "# Panics This function panics if called from a current_thread runtime";
// runtime/scheduler/multi_thread/worker.rs:408-450 for who may call `block_in_place`).

/// What the calling thread is doing at the moment the wrapper is called.
pub ghost enum CtxKind {
    /// no tokio handle is current on this thread (`std::thread::spawn`, `fn main`)
    Plain,
    /// the thread is DRIVING a multi-thread runtime: a worker thread running a task, or a thread inside that runtime's
    /// `Runtime::block_on` (`#[tokio::main] async fn main`)
    MultiThreadRuntime,
    /// the thread is DRIVING a current-thread runtime: inside its `Runtime::block_on` (its tasks run there too)
    CurrentThreadRuntime,
    /// a handle is current but the thread does not drive a runtime: a `Runtime::enter()` / `Handle::enter()` guard on
    /// a plain thread, a `spawn_blocking` thread, or the inside of `block_in_place`
    BlockingRegion,
}
/// (not modelled, stated as an ASSUMPTION: the caller is not inside a `LocalSet` that runs on a multi-thread runtime -
/// there the handle's flavor is MultiThread but `block_in_place` panics as well (task/local.rs `disallow_block_in_place`),
/// and tokio offers no way to find that out beforehand)
pub ghost enum Flavor { CurrentThread, MultiThread }

/// The calling context as a token (always passed as `cx: Tracked<&Ctx>`, which is `Copy`): nothing in this unit
/// constructs one, so the context a call is judged in is the one the program structure hands down - the wrapper's own
/// (arbitrary) context, or, inside the closure that `block_in_place` runs, the one `block_in_place` passes to it.
pub tracked struct Ctx {
    pub ghost kind: CtxKind,
    /// flavor of the runtime whose handle is current (meaningless for `Plain`)
    pub ghost flavor: Flavor,
}
impl Ctx {
    pub open spec fn wf(&self) -> bool {
        &&& self.kind is MultiThreadRuntime ==> self.flavor is MultiThread
        &&& self.kind is CurrentThreadRuntime ==> self.flavor is CurrentThread
    }
    /// `Handle::block_on` may be called here (it panics with "Cannot start a runtime from within a runtime" on a thread
    /// that is driving a runtime)
    pub open spec fn may_block_on(&self) -> bool { self.kind is Plain || self.kind is BlockingRegion }
    /// `block_in_place` may be called here
    pub open spec fn may_block_in_place(&self) -> bool { !(self.kind is CurrentThreadRuntime) }
    /// the context of the closure that `block_in_place` runs: a worker hands its core to another thread and leaves the
    /// runtime context (-> BlockingRegion); outside a runtime the closure is simply called
    pub open spec fn in_place(&self) -> CtxKind {
        match self.kind { CtxKind::MultiThreadRuntime => CtxKind::BlockingRegion, k => k }
    }
}

/// Permission for ONE flush / send attempt. The wrapper is handed exactly one; `flush`, `send` and `sync::blocking_*`
/// consume it (by value, it is not `Copy` and nothing constructs one); the `block_in_place` closure captures it by move.
/// Together with the outcome postcondition: EXACTLY one attempt is made, with the wrapper's own sender / message /
/// timeout, and its result is what the wrapper returns (what batcher_blocking.vx used to state over its call log).
pub tracked struct Once { pub ghost x: int }

pub uninterp spec fn dur_total_nanos(d: Duration) -> nat;
pub uninterp spec fn item_id<I>(x: I) -> int;

/// "r is the result of ONE flush of the sender with this id, bounded by d": established only by the mirrors of
/// `tokio::flush` and `sync::blocking_flush` below (their real bodies are under contract in batcher_blocking.vx:
/// `flush_at` - callback registered with `when_flushed`, one bounded wait, result = the wait's)
pub uninterp spec fn flush_outcome(sender: int, d: nat, r: bool) -> bool;
/// "ok is the result of ONE send of item `msg` through the sender with this id, bounded by d" (batcher_blocking.vx: `send_at`)
pub uninterp spec fn send_outcome(sender: int, msg: int, d: nat, ok: bool) -> bool;

// ------------------------------------------------------------------ the crate's own items (mirrors)
//@extract batcher/src/lib.rs / trait Channel
//@rules R1 R2
//@keep Item
//@end

//@extract batcher/src/lib.rs / struct BatchError
//@rules R1 R2
//@end

pub open spec fn returned_item<I>(r: Result<(), BatchError<I>>) -> Option<I> {
    match r { Ok(_) => None, Err(e) => e.retryable }
}

#[verifier::external_body]
#[verifier::reject_recursive_types(T)]
pub struct Sender<T> { _p: core::marker::PhantomData<T> }
impl<T: Channel> Sender<T> { pub uninterp spec fn id(&self) -> int; }

pub mod sync {
    use super::*;
    // batcher/src/sync.rs (bodies under contract in batcher_blocking.vx): a condvar wait with a timeout. ASSUMPTION,
    // not a proof: it may be called in EVERY context - it blocks the calling thread for at most the timeout but
    // neither panics nor deadlocks, because the channel's receiver runs on a thread of its own
    // (`emit_batcher::tokio::spawn` / the OTLP worker thread), never on the caller's runtime.
    #[verifier::external_body]
    pub fn blocking_flush<T: Channel>(sender: &Sender<T>, timeout: Duration, once: Tracked<Once>) -> (r: bool)
        ensures flush_outcome(sender.id(), dur_total_nanos(timeout), r),
    { unimplemented!() }
    #[verifier::external_body]
    pub fn blocking_send<T: Channel>(sender: &Sender<T>, msg: T::Item, timeout: Duration, once: Tracked<Once>) -> (r: Result<(), BatchError<T::Item>>)
        ensures
            send_outcome(sender.id(), item_id(msg), dur_total_nanos(timeout), r.is_ok()),
            r is Err ==> returned_item(r) == Some(msg) || returned_item(r) is None,
    { unimplemented!() }
}

// ------------------------------------------------------------------ tokio (dependency): TRUSTED mirror
/// tokio::runtime: `#[derive(Debug, PartialEq, Eq)] #[non_exhaustive] pub enum RuntimeFlavor { CurrentThread, MultiThread }`
/// (declared at the top level and re-exported: Verus 0.2026.09.13 crashes on `derive(Structural)` in a nested module)
#[derive(Clone, Copy, PartialEq, Eq)] #[derive(Structural)]
pub enum RuntimeFlavor { CurrentThread, MultiThread }
pub mod tokio {
    pub mod runtime {
        use crate::*;

        pub use crate::RuntimeFlavor;
        pub open spec fn flavor_of(f: Flavor) -> RuntimeFlavor {
            match f { Flavor::CurrentThread => RuntimeFlavor::CurrentThread, Flavor::MultiThread => RuntimeFlavor::MultiThread }
        }

        #[verifier::external_body]
        pub struct Handle { _p: () }
        pub struct TryCurrentError { pub _p: () }

        impl Handle {
            pub uninterp spec fn flavor(&self) -> Flavor;

            /// `Ok` iff a handle is current on this thread - also on a thread that is DRIVING the runtime
            #[verifier::external_body]
            pub fn try_current(cx: Tracked<&Ctx>) -> (r: Result<Handle, TryCurrentError>)
                ensures
                    r is Ok <==> !(cx@.kind is Plain),
                    r matches Ok(h) ==> h.flavor() == cx@.flavor,
            { unimplemented!() }

            #[verifier::external_body]
            pub fn runtime_flavor(&self) -> (r: RuntimeFlavor)
                ensures r == flavor_of(self.flavor()),
            { unimplemented!() }

            /// PANICS when the calling thread is driving a runtime
            #[verifier::external_body]
            pub fn block_on<F: Future>(&self, future: F, cx: Tracked<&Ctx>) -> (r: F::Output)
                requires cx@.may_block_on(),
                ensures future.awaited(), r == future@,
            { unimplemented!() }
        }
    }

    pub mod task {
        use crate::*;

        /// PANICS on a current-thread runtime; runs `f` once, on this thread, in the context `cx.in_place()`, and
        /// returns its result. (tokio: `F: FnOnce() -> R`; here the closure is handed the token of the context it
        /// runs in - R9, `//@replace-each R9 cparams` writes the parameter; the attempt permission is captured by move.)
        #[verifier::external_body]
        pub fn block_in_place<F: FnOnce(Tracked<&Ctx>) -> R, R>(f: F, cx: Tracked<&Ctx>) -> (r: R)
            requires
                cx@.may_block_in_place(),
                forall|c: Tracked<&Ctx>| c@.kind == cx@.in_place() && c@.flavor == cx@.flavor ==> #[trigger] f.requires((c,)),
            ensures
                exists|c: Tracked<&Ctx>| c@.kind == cx@.in_place() && c@.flavor == cx@.flavor && #[trigger] f.ensures((c,), r),
        { unimplemented!() }
    }
}

// ------------------------------------------------------------------ batcher/src/tokio.rs: the async variants (mirrors)
pub mod tokio_rs_async {
    use crate::*;
    // tokio.rs `flush` / `send` (bodies under contract in batcher_blocking.vx: `flush_at` / `send_at`)
    #[verifier::external_body]
    pub async fn flush<T: Channel>(sender: &Sender<T>, timeout: Duration, once: Tracked<Once>) -> (r: bool)
        ensures flush_outcome(sender.id(), dur_total_nanos(timeout), r),
    { unimplemented!() }
    #[verifier::external_body]
    pub async fn send<T: Channel>(sender: &Sender<T>, msg: T::Item, timeout: Duration, once: Tracked<Once>) -> (r: Result<(), BatchError<T::Item>>)
        ensures
            send_outcome(sender.id(), item_id(msg), dur_total_nanos(timeout), r.is_ok()),
            r is Err ==> returned_item(r) == Some(msg) || returned_item(r) is None,
    { unimplemented!() }
}
