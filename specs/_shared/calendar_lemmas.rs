// Lemmas about the independent calendar specification of _shared/calendar.rs (proved, not
// assumed). Shared by core_timestamp_to_parts and core_timestamp_from_parts.

// x == q*d + r with 0 <= r < d pins down x / d and x % d
proof fn lemma_divmod(x: int, d: int, q: int, r: int)
    requires d > 0, 0 <= r < d, x == q * d + r
    ensures x / d == q, x % d == r
{
    vstd::arithmetic::div_mod::lemma_fundamental_div_mod_converse(x, d, q, r);
}
// A year written as 2000 + 400*cycles + 100*centuries + 4*l4 + r: its leap status and the
// number of days from 1970-01-01 to its first of January.
proof fn lemma_year_decomp(y: int, cycles: int, centuries: int, l4: int, r: int)
    requires y - 2000 == 400 * cycles + 100 * centuries + 4 * l4 + r, 0 <= centuries <= 3, 0 <= l4 <= 24, 0 <= r <= 3,
    ensures
        is_leap(y) == (r == 0 && (l4 > 0 || centuries == 0)),
        days_before_year(y) == (y - 2000) * 365 + l4 + 97 * cycles + 24 * centuries - (if is_leap(y) { 1int } else { 0int }) + 10958,
{
    let v = 4 * l4 + r;
    let w = 100 * centuries + v;
    let a4 = 500 + 100 * cycles + 25 * centuries + l4;
    let a100 = 20 + 4 * cycles + centuries;
    let a400 = 5 + cycles;
    lemma_divmod(y, 4, a4, r);
    lemma_divmod(y, 100, a100, v);
    lemma_divmod(y, 400, a400, w);
    if r == 0 { lemma_divmod(y - 1, 4, a4 - 1, 3); } else { lemma_divmod(y - 1, 4, a4, r - 1); }
    if v == 0 { lemma_divmod(y - 1, 100, a100 - 1, 99); } else { lemma_divmod(y - 1, 100, a100, v - 1); }
    if w == 0 { lemma_divmod(y - 1, 400, a400 - 1, 399); } else { lemma_divmod(y - 1, 400, a400, w - 1); }
    assert(leaps_before(1970) == 477);
}
// a year has 365 days, 366 when it is a leap year
proof fn lemma_year_step(y: int)
    ensures days_before_year(y + 1) == days_before_year(y) + 365 + (if is_leap(y) { 1int } else { 0int })
{
    let q = y / 400;
    let w = y % 400;
    assert(y == 400 * q + w && 0 <= w < 400);
    lemma_divmod(y, 100, 4 * q + w / 100, w % 100);
    lemma_divmod(y, 4, 100 * q + w / 4, w % 4);
    if w == 0 {
        lemma_divmod(y - 1, 400, q - 1, 399);
        lemma_divmod(y - 1, 100, 4 * q - 1, 99);
        lemma_divmod(y - 1, 4, 100 * q - 1, 3);
    } else {
        lemma_divmod(y - 1, 400, q, w - 1);
        lemma_divmod(y - 1, 100, 4 * q + (w - 1) / 100, (w - 1) % 100);
        lemma_divmod(y - 1, 4, 100 * q + (w - 1) / 4, (w - 1) % 4);
        // facts about the bounded remainder only
        assert(w / 100 - (w - 1) / 100 == (if w % 100 == 0 { 1int } else { 0int }));
        assert(w / 4 - (w - 1) / 4 == (if w % 4 == 0 { 1int } else { 0int }));
        assert(w % 100 == 0 ==> w % 4 == 0);
    }
}
proof fn lemma_year_mono(y1: int, y2: int)
    requires y1 <= y2
    ensures days_before_year(y1) + 365 * (y2 - y1) <= days_before_year(y2)
    decreases y2 - y1
{
    if y1 < y2 {
        lemma_year_mono(y1, y2 - 1);
        lemma_year_step(y2 - 1);
    }
}
// days before the first of month m in a common year
pub open spec fn common_cum(m: int) -> int {
    if m <= 1 { 0 } else if m == 2 { 31 } else if m == 3 { 59 } else if m == 4 { 90 } else if m == 5 { 120 } else if m == 6 { 151 }
    else if m == 7 { 181 } else if m == 8 { 212 } else if m == 9 { 243 } else if m == 10 { 273 } else if m == 11 { 304 } else { 334 }
}
proof fn lemma_month_start(y: int, m: int)
    requires 1 <= m <= 12
    ensures days_before_month(y, m) == common_cum(m) + (if is_leap(y) && m > 2 { 1int } else { 0int }),
            0 <= days_before_month(y, m) <= 335,
            days_before_month(y, m) + dim(y, m) <= 365 + (if is_leap(y) { 1int } else { 0int }),
{
    reveal_with_fuel(days_before_month, 13);
}
