// C13 "attribute keys are unique", log record - OPEN KNOWN FINDING (known_findings.json): this file holds exactly ONE
// obligation, so that its id `otlp_log_record::-::raw@specs/_shared/otlp_log_attr_keys_distinct.rs:<line>` names it.
//
// The clause: over the de-duplicated props (no key twice) the keys of the streamed attributes are pairwise distinct.
// It is FALSE for the tree: `err` is turned into the attributes `exception.message` (and `exception.stacktrace` when the
// error has a source) without looking at the other properties, so an event that also has a property with that key gets
// the key twice (findings/repro_otlp_duplicate_exception_key.rs). Everything else about uniqueness is PROVED - in the
// unit, `lemma_log_attr_keys_unique`: no key twice unless `err` meets a property named exception.message /
// exception.stacktrace - so any other violation of uniqueness is still reported there and by the call-sequence contract.
pub proof fn lemma_log_attribute_keys_pairwise_distinct(d: Seq<Kv>)
    requires no_dup_keys(d),
    ensures attr_keys_pairwise_distinct(log_attrs_calls(d)),
{
    lemma_keys_distinct();
    assert forall|k: &str| key_count(log_attrs_calls(d), k) <= 1 by {
        lemma_log_attr_count(d, k);
        if first(d, KEY_ERR) is None || (first(d, "exception.message") is None && first(d, "exception.stacktrace") is None) {
            // proved: lifted keys never, every other property once
        } else {
            // OPEN: the synthesized exception.* key meets a property of the same name: counted twice
        }
    }
    lemma_count_le1_pairwise(log_attrs_calls(d));
}
