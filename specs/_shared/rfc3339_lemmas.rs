// Lemmas about the RFC 3339 text form, shared by core_timestamp_fmt (order lemma) and
// core_timestamp_parse (round trip). Needs _shared/rfc3339.rs.

pub proof fn lemma_pow10_pos(n: nat)
    ensures pow10(n) > 0
    decreases n
{
    if n > 0 { lemma_pow10_pos((n - 1) as nat); }
}
pub proof fn lemma_pow10_add(a: nat, b: nat)
    ensures pow10(a + b) == pow10(a) * pow10(b)
    decreases a
{
    if a == 0 {
        assert(pow10(0) == 1);
        assert(a + b == b);
    } else {
        let a1 = (a - 1) as nat;
        lemma_pow10_add(a1, b);
        assert(((a + b) - 1) as nat == a1 + b);
        assert(pow10(a + b) == 10 * pow10(a1 + b));
        assert(pow10(a) == 10 * pow10(a1));
        let (x, y) = (pow10(a1) as int, pow10(b) as int);
        assert(10 * (x * y) == (10 * x) * y) by(nonlinear_arith);
    }
}
// digit of v at place 10*m is the digit of v/10 at place m
pub proof fn lemma_digit_shift(v: int, m: int)
    requires 0 <= v, 0 < m
    ensures digit(v, 10 * m) == digit(v / 10, m)
{
    vstd::arithmetic::div_mod::lemma_div_denominator(v, 10, m);
}
// all digits but the last of v (w digits) are the digits of v/10 (w-1 digits); the last is v%10
pub proof fn lemma_dig_shift(v: int, w: int)
    requires 0 <= v, 1 <= w
    ensures
        forall|i: int| 0 <= i < w - 1 ==> #[trigger] dig_at(v, w, i) == dig_at(v / 10, w - 1, i),
        dig_at(v, w, w - 1) == digit(v, 1),
{
    assert forall|i: int| 0 <= i < w - 1 implies #[trigger] dig_at(v, w, i) == dig_at(v / 10, w - 1, i) by {
        let m = pow10((w - 2 - i) as nat) as int;
        lemma_pow10_pos((w - 2 - i) as nat);
        assert(pow10((w - 1 - i) as nat) == 10 * m);
        lemma_digit_shift(v, m);
    }
    assert(pow10(0) == 1);
}
// a fraction digit depends only on the nanos cut to k digits
pub proof fn lemma_frac_digit(n: int, k: int, j: int)
    requires 0 <= n, 0 <= j < k <= 9
    ensures dig_at(n, 9, j) == dig_at(n / (pow10((9 - k) as nat) as int), k, j)
{
    let a = pow10((9 - k) as nat) as int; let b = pow10((k - 1 - j) as nat) as int;
    lemma_pow10_pos((9 - k) as nat); lemma_pow10_pos((k - 1 - j) as nat);
    lemma_pow10_add((9 - k) as nat, (k - 1 - j) as nat);
    assert((9 - k) as nat + (k - 1 - j) as nat == (8 - j) as nat);
    vstd::arithmetic::div_mod::lemma_div_denominator(n, a, b);
}

// the text, position by position
pub open spec fn text_len(k: int) -> int { if k == 0 { 20 } else { 21 + k } }
pub open spec fn text_at(p: Parts, k: int, j: int) -> u8 {
    if j < 4 { dig_at(p.years as int, 4, j) } else if j == 4 { 0x2d }
    else if j < 7 { dig_at(p.months as int, 2, j - 5) } else if j == 7 { 0x2d }
    else if j < 10 { dig_at(p.days as int, 2, j - 8) } else if j == 10 { 0x54 }
    else if j < 13 { dig_at(p.hours as int, 2, j - 11) } else if j == 13 { 0x3a }
    else if j < 16 { dig_at(p.minutes as int, 2, j - 14) } else if j == 16 { 0x3a }
    else if j < 19 { dig_at(p.seconds as int, 2, j - 17) }
    else if k == 0 { 0x5a } else if j == 19 { 0x2e }
    else if j < 20 + k { dig_at(p.nanos as int, 9, j - 20) } else { 0x5a }
}
pub proof fn lemma_text_at(p: Parts, k: int)
    requires 0 <= k <= 9
    ensures rfc3339_text(p, k).len() == text_len(k),
        forall|j: int| 0 <= j < text_len(k) ==> #[trigger] rfc3339_text(p, k)[j] == text_at(p, k, j),
{
    lemma_pow10_values();
    let t = rfc3339_text(p, k);
    let head = rfc3339_head(p);
    assert(head.len() == 19);
    assert forall|j: int| 0 <= j < text_len(k) implies #[trigger] t[j] == text_at(p, k, j) by {
        if j < 19 {
            assert(t[j] == head[j]);
            if j == 0 {} else if j == 1 {} else if j == 2 {} else if j == 3 {} else if j == 4 {} else if j == 5 {} else if j == 6 {} else if j == 7 {} else if j == 8 {} else if j == 9 {}
            else if j == 10 {} else if j == 11 {} else if j == 12 {} else if j == 13 {} else if j == 14 {} else if j == 15 {} else if j == 16 {} else if j == 17 {} else {}
        } else if k == 0 {
        } else if j == 19 {
        } else if j < 20 + k {
            assert(t[j] == rfc3339_frac(p.nanos as int, k)[j - 20]);
        } else {}
    }
}

