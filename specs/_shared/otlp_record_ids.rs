// Shared by otlp_log_record and otlp_span_record: the id types the two raw encoders plug into `TR` / `SP`
// (data.rs:108-233, also under contract - against a flat output log - in unit otlp_raw_ids), so that the generic
// `Computed(TR::from_spec(id).form())` of the record contracts can be read for Proto (binary) and Json (hex text).

/// the `n` low bytes of `x`, most significant first
pub open spec fn be_bytes(x: int, n: nat) -> Seq<u8>
    decreases n
{
    if n == 0 { Seq::<u8>::empty() } else { be_bytes(x / 256, (n - 1) as nat).push((x % 256) as u8) }
}
// `TraceId::to_u128()` / `SpanId::to_u64()` return the number behind a mirror type that carries the byte-order
// methods (std's `to_be_bytes` has the return type `[u8; size_of::<T>()]`, which an assume_specification cannot
// spell): big-endian = most significant byte first, little-endian = the reverse
pub struct Num128(pub u128);
pub struct Num64(pub u64);
impl Num128 {
    #[verifier::external_body]
    pub fn to_be_bytes(self) -> (r: [u8; 16]) ensures r@ =~= be_bytes(self.0 as int, 16) { self.0.to_be_bytes() }
    #[verifier::external_body]
    pub fn to_le_bytes(self) -> (r: [u8; 16]) ensures r@ =~= be_bytes(self.0 as int, 16).reverse() { self.0.to_le_bytes() }
}
impl Num64 {
    #[verifier::external_body]
    pub fn to_be_bytes(self) -> (r: [u8; 8]) ensures r@ =~= be_bytes(self.0 as int, 8) { self.0.to_be_bytes() }
    #[verifier::external_body]
    pub fn to_le_bytes(self) -> (r: [u8; 8]) ensures r@ =~= be_bytes(self.0 as int, 8).reverse() { self.0.to_le_bytes() }
}
impl emit::TraceId {
    pub uninterp spec fn num(&self) -> u128;
    #[verifier::external_body] pub fn to_u128(&self) -> (r: Num128) ensures r.0 == self.num() { unimplemented!() }
}
impl emit::SpanId {
    pub uninterp spec fn num(&self) -> u64;
    #[verifier::external_body] pub fn to_u64(&self) -> (r: Num64) ensures r.0 == self.num() { unimplemented!() }
}

impl sval::Shown for emit::TraceId { open spec fn shown(&self) -> ShownV { ShownV::Id { bits: 128, n: self.num() as int } } }
impl sval::Shown for emit::SpanId { open spec fn shown(&self) -> ShownV { ShownV::Id { bits: 64, n: self.num() as int } } }

#[verifier::external_body] pub struct EncodedPayload { x: u8 }

/// `format_args!(fmt, n)` for one number (mirror; the unit shadows the built-in macro with `fmt_hex`, see otlp_raw_ids):
/// `{:x}` = minimal-width hex, `{:032x}` / `{:016x}` = zero-padded to the width of a 128 / 64 bit id (the text of the id's
/// `Display`), anything else = unknown text
pub trait HexNum { spec fn hex_num(&self) -> int; }
impl HexNum for Num128 { open spec fn hex_num(&self) -> int { self.0 as int } }
impl HexNum for Num64 { open spec fn hex_num(&self) -> int { self.0 as int } }
#[verifier::external_body] pub struct FmtArgs { x: u8 }
impl FmtArgs { pub uninterp spec fn text(&self) -> ShownV; }
impl sval::Shown for FmtArgs { open spec fn shown(&self) -> ShownV { self.text() } }
#[verifier::external_body]
pub fn fmt_hex<T: HexNum>(fmt: &'static str, n: T) -> (r: FmtArgs)
    ensures
        fmt == "{:x}" ==> r.text() == (ShownV::HexMin { n: n.hex_num() }),
        fmt == "{:032x}" ==> r.text() == (ShownV::Id { bits: 128, n: n.hex_num() }),
        fmt == "{:016x}" ==> r.text() == (ShownV::Id { bits: 64, n: n.hex_num() }),
{ unimplemented!() }

//@extract emitter/otlp/src/data.rs / trait RawEncoder
//@rules R1 R2
//@keep TraceId SpanId
//@end
//@extract emitter/otlp/src/data.rs / struct Proto
//@rules R1 R2
//@end
//@extract emitter/otlp/src/data.rs / struct Json
//@rules R1 R2
//@end
//@extract emitter/otlp/src/data.rs / struct BinaryTraceId
//@rules R1 R2
//@end
//@extract emitter/otlp/src/data.rs / struct BinarySpanId
//@rules R1 R2
//@end
//@extract emitter/otlp/src/data.rs / struct TextTraceId
//@rules R1 R2
//@end
//@extract emitter/otlp/src/data.rs / struct TextSpanId
//@rules R1 R2
//@end

// vstd's contract of `From::from` (`r == from_spec(v)`): the newtypes wrap the id unchanged
impl vstd::std_specs::convert::FromSpecImpl<emit::TraceId> for BinaryTraceId {
    open spec fn obeys_from_spec() -> bool { true }
    open spec fn from_spec(v: emit::TraceId) -> Self { BinaryTraceId(v) }
}
impl vstd::std_specs::convert::FromSpecImpl<emit::SpanId> for BinarySpanId {
    open spec fn obeys_from_spec() -> bool { true }
    open spec fn from_spec(v: emit::SpanId) -> Self { BinarySpanId(v) }
}
impl vstd::std_specs::convert::FromSpecImpl<emit::TraceId> for TextTraceId {
    open spec fn obeys_from_spec() -> bool { true }
    open spec fn from_spec(v: emit::TraceId) -> Self { TextTraceId(v) }
}
impl vstd::std_specs::convert::FromSpecImpl<emit::SpanId> for TextSpanId {
    open spec fn obeys_from_spec() -> bool { true }
    open spec fn from_spec(v: emit::SpanId) -> Self { TextSpanId(v) }
}
//@extract emitter/otlp/src/data.rs / impl From<emit::TraceId> for BinaryTraceId
//@rules R1
//@end
//@extract emitter/otlp/src/data.rs / impl From<emit::SpanId> for BinarySpanId
//@rules R1
//@end
//@extract emitter/otlp/src/data.rs / impl From<emit::TraceId> for TextTraceId
//@rules R1
//@end
//@extract emitter/otlp/src/data.rs / impl From<emit::SpanId> for TextSpanId
//@rules R1
//@end

// protobuf: the id as its 16 / 8 big-endian bytes; JSON: the id as text (hex, via Display). Each `stream` hands the
// stream exactly the form declared here, once.
impl sval::HasForm for BinaryTraceId { open spec fn form(&self) -> Form { Form::Binary(be_bytes(self.0.num() as int, 16)) } }
//@extract emitter/otlp/src/data.rs / impl sval::Value for BinaryTraceId
//@rules R1
//@fn stream
//@ret r
//@sig
        ensures stepped(old(stream).hist(), final(stream).hist(), Call::Computed(self.form()), r),
//@end
impl sval::HasForm for BinarySpanId { open spec fn form(&self) -> Form { Form::Binary(be_bytes(self.0.num() as int, 8)) } }
//@extract emitter/otlp/src/data.rs / impl sval::Value for BinarySpanId
//@rules R1
//@fn stream
//@ret r
//@sig
        ensures stepped(old(stream).hist(), final(stream).hist(), Call::Computed(self.form()), r),
//@end
impl sval::HasForm for TextTraceId { open spec fn form(&self) -> Form { Form::Text(ShownV::Id { bits: 128, n: self.0.num() as int }) } }
//@extract emitter/otlp/src/data.rs / impl sval::Value for TextTraceId
//@rules R1
//@fn stream
//@ret r
//@sig
        ensures stepped(old(stream).hist(), final(stream).hist(), Call::Computed(self.form()), r),
//@end
impl sval::HasForm for TextSpanId { open spec fn form(&self) -> Form { Form::Text(ShownV::Id { bits: 64, n: self.0.num() as int }) } }
//@extract emitter/otlp/src/data.rs / impl sval::Value for TextSpanId
//@rules R1
//@fn stream
//@ret r
//@sig
        ensures stepped(old(stream).hist(), final(stream).hist(), Call::Computed(self.form()), r),
//@end

// the associated-type choice of the two raw encoders (`encode` itself is not extracted)
//@extract emitter/otlp/src/data.rs / impl RawEncoder for Proto
//@rules R1
//@keep TraceId SpanId
//@end
//@extract emitter/otlp/src/data.rs / impl RawEncoder for Json
//@rules R1
//@keep TraceId SpanId
//@end

/// "ids are encoded binary for protobuf and as hex text for JSON": what `Computed(TR::from_spec(id).form())` /
/// `Computed(SP::from_spec(id).form())` of the record contracts is under the two encoders - and both obey `from_spec`
pub proof fn lemma_raw_encoder_ids(t: emit::TraceId, s: emit::SpanId)
    ensures
        <<Proto as RawEncoder>::TraceId as FromSpec<emit::TraceId>>::obeys_from_spec(),
        <<Proto as RawEncoder>::SpanId as FromSpec<emit::SpanId>>::obeys_from_spec(),
        <<Json as RawEncoder>::TraceId as FromSpec<emit::TraceId>>::obeys_from_spec(),
        <<Json as RawEncoder>::SpanId as FromSpec<emit::SpanId>>::obeys_from_spec(),
        <<Proto as RawEncoder>::TraceId as FromSpec<emit::TraceId>>::from_spec(t).form() == Form::Binary(be_bytes(t.num() as int, 16)),
        <<Proto as RawEncoder>::SpanId as FromSpec<emit::SpanId>>::from_spec(s).form() == Form::Binary(be_bytes(s.num() as int, 8)),
        be_bytes(t.num() as int, 16).len() == 16, be_bytes(s.num() as int, 8).len() == 8,
        <<Json as RawEncoder>::TraceId as FromSpec<emit::TraceId>>::from_spec(t).form() == Form::Text(ShownV::Id { bits: 128, n: t.num() as int }),
        <<Json as RawEncoder>::SpanId as FromSpec<emit::SpanId>>::from_spec(s).form() == Form::Text(ShownV::Id { bits: 64, n: s.num() as int }),
{
    reveal_with_fuel(be_bytes, 17);
}
