// Shared by file_write and file_on_batch: ActiveFile::write_event / try_open_reuse / try_open_create (extracted and
// proved wherever this file is included), the chunk account of a file, the batcher's BatchError, and the contract
// vocabulary of the write loop + tail of Worker::on_batch (write_batch_post).
// (expects file_types.rs + file_batch.rs included before, `#![feature(sized_hierarchy)]`, `#![feature(allocator_api)]`)

// =====================================================================================
// write_event
// =====================================================================================
pub open spec fn W(data: Seq<u8>, ok: bool) -> FsEff { FsEff::Write(data, ok) }
// state after the leading separator (written iff recovery was needed)
pub open spec fn sep_c(c0: Seq<u8>, nr: bool, sep: Seq<u8>) -> Seq<u8> { if nr { c0 + sep } else { c0 } }
pub open spec fn sep_l(l0: Seq<FsEff>, nr: bool, sep: Seq<u8>) -> Seq<FsEff> { if nr { l0.push(W(sep, true)) } else { l0 } }

// the event write failed after the separator (written iff recovery was needed) went through
// (stated per case, so that no hint about the state between the two writes is needed)
pub open spec fn ev_write_failed(c0: Seq<u8>, l0: Seq<FsEff>, nr0: bool, sep: Seq<u8>, ev: Seq<u8>, c1: Seq<u8>, l1: Seq<FsEff>) -> bool {
    if nr0 {
        exists|k: int| 0 <= k <= ev.len() && #[trigger] wrote(c0 + sep, l0.push(W(sep, true)), ev, k, false, c1, l1)
    } else {
        exists|k: int| 0 <= k <= ev.len() && #[trigger] wrote(c0, l0, ev, k, false, c1, l1)
    }
}

// the whole post-state of write_event as a relation (c = file content, l = effect log, nr = file_needs_recovery)
pub open spec fn write_event_rel(c0: Seq<u8>, l0: Seq<FsEff>, nr0: bool, sep: Seq<u8>, ev: Seq<u8>,
                                 c1: Seq<u8>, l1: Seq<FsEff>, nr1: bool, ok: bool) -> bool {
    if ok {
        // separator first iff recovery was needed, then the whole event; flag cleared
        &&& c1 == sep_c(c0, nr0, sep) + ev
        &&& l1 == sep_l(l0, nr0, sep).push(W(ev, true))
        &&& !nr1
    } else {
        &&& nr1
        &&& ({
            // the separator write failed: some prefix of the separator, nothing of the event
            ||| nr0 && exists|k: int| 0 <= k <= sep.len() && #[trigger] wrote(c0, l0, sep, k, false, c1, l1)
            // the event write failed: the separator (if needed) completely, then a prefix of the event
            ||| ev_write_failed(c0, l0, nr0, sep, ev, c1, l1)
        })
    }
}

//@extract emitter/file/src/lib.rs / impl ActiveFile / fn write_event
//@rules R1 R2 R9
//@ret r
//@param
    Tracked(tr): Tracked<&mut FsTrace>
//@arg-each R9 mcall write_all
    Tracked(tr)
//@sig
        requires
            // the size counter is a usize
            old(self).file_size_bytes + (if old(self).file_needs_recovery { separator@.len() } else { 0 }) + event_buf@.len() <= usize::MAX,
        ensures
            write_event_rel(old(self).file.content(), old(tr).log, old(self).file_needs_recovery, separator@, event_buf@,
                            final(self).file.content(), final(tr).log, final(self).file_needs_recovery, r is Ok),
            r is Ok ==> final(self).file_size_bytes == old(self).file_size_bytes + (if old(self).file_needs_recovery { separator@.len() } else { 0 }) + event_buf@.len(),
            // the size counter is pinned: exactly the bytes this call asked the file to append on Ok;
            // on Err it never runs ahead of what was asked (the handle is dropped by on_batch then)
            old(self).file_size_bytes <= final(self).file_size_bytes
                <= old(self).file_size_bytes + (if old(self).file_needs_recovery { separator@.len() } else { 0 }) + event_buf@.len(),
            final(self).file.flushed() == old(self).file.flushed(),
            final(self).file.synced() == old(self).file.synced(),
            final(self).file_path == old(self).file_path,
            final(self).file_ts == old(self).file_ts,
//@end

// =====================================================================================
// opening a file: reuse => recovery needed; create => empty, no recovery
// =====================================================================================
// std trait (trusted declaration, no contract): AsRef
#[verifier::external_trait_specification]
pub trait ExAsRef<T: core::marker::PointeeSized>: core::marker::PointeeSized {
    type ExternalTraitSpecificationFor: core::convert::AsRef<T>;
    fn as_ref(&self) -> &T;
}
// abstracted callee (Path::file_name / OsStr::to_str / str::rsplit chain). ASSUMED: proved in specs/file_names.vx
// (same clauses): the period is read back from the file name of the path
#[verifier::external_body]
pub fn read_file_path_ts(path: &Path) -> (r: Result<&str, io::Error>)
    ensures
        r is Ok <==> path_ts_of(path_v(path)) is Some,
        r is Ok ==> r->Ok_0@ == path_ts_of(path_v(path))->Some_0,
{ unimplemented!() }
// R10 stub for `file_path.into()` (&Path -> PathBuf; the std impl is generic over AsRef<OsStr>)
#[verifier::external_body]
pub fn path_to_buf(p: &Path) -> (r: PathBuf)
    ensures pathbuf_v(r) == path_v(p)
{ p.into() }

// the directory entry of the file behind `f` is durable: opened (new: created) at p by fs, parent synced Ok
pub open spec fn dir_entry_published<F: ?Sized>(fs: &F, p: &Path, new: bool, f: ActiveFile) -> bool {
    &&& pathbuf_v(f.file_path) == path_v(p)
    // the period recorded for the file is the one read back from its name
    &&& path_ts_of(path_v(p)) == Some(f.file_ts@)
    &&& opened_by(fs, path_v(p), new, true)
    &&& parent_synced_by(fs, path_v(p), true)
}

//@extract emitter/file/src/lib.rs / impl ActiveFile / fn try_open_reuse
//@rules R1 R2 R10
//@ret r
//@replace R10 mcall into
    path_to_buf(file_path)
//@sig
        ensures
            r is Ok ==> {
                let f = r->Ok_0;
                // whatever the file ends with is closed by a separator before the next event
                &&& f.file_needs_recovery
                &&& f.file_size_bytes == f.file.content().len()
                &&& f.file.synced() <= f.file.flushed() <= f.file.content().len()
            },
            // Ok only if THIS call opened exactly this path and then synced its parent directory
            // successfully (an Err of sync_parent is propagated; the order is sync_parent's protocol)
            r is Ok ==> exists|p: &Path| #[trigger] call_ensures(<_ as AsRef<Path>>::as_ref, (&file_path,), p) && dir_entry_published(&fs, p, false, r->Ok_0),
//@end

//@extract emitter/file/src/lib.rs / impl ActiveFile / fn try_open_create
//@rules R1 R2 R10
//@ret r
//@replace R10 mcall into
    path_to_buf(file_path)
//@sig
        ensures
            r is Ok ==> {
                let f = r->Ok_0;
                &&& !f.file_needs_recovery
                &&& f.file_size_bytes == 0
                &&& f.file.content() =~= Seq::<u8>::empty()
                &&& f.file.flushed() == 0 && f.file.synced() == 0
            },
            // Ok only if THIS call created exactly this path and then synced its parent directory
            // successfully (an Err of sync_parent is propagated, never swallowed)
            r is Ok ==> exists|p: &Path| #[trigger] call_ensures(<_ as AsRef<Path>>::as_ref, (&file_path,), p) && dir_entry_published(&fs, p, true, r->Ok_0),
//@end

// =====================================================================================
// the chunk-structured invariant (C10: "never bytes of two events run together")
// =====================================================================================
// ghost account of a file: what each run of bytes is
pub enum Chunk {
    Event(Seq<u8>),         // one complete event buffer
    Sep,                    // the separator written by recovery
    PartialEvent(Seq<u8>),  // a prefix of an event, left where a write failed (or: unknown old content of a reused file)
    PartialSep(Seq<u8>),    // a prefix of the separator, left where its write failed
}
pub open spec fn chunk_bytes(c: Chunk, sep: Seq<u8>) -> Seq<u8> {
    match c { Chunk::Event(e) => e, Chunk::Sep => sep, Chunk::PartialEvent(p) => p, Chunk::PartialSep(p) => p }
}
pub open spec fn flat(cs: Seq<Chunk>, sep: Seq<u8>) -> Seq<u8>
    decreases cs.len()
{
    if cs.len() == 0 { Seq::<u8>::empty() } else { flat(cs.drop_last(), sep) + chunk_bytes(cs.last(), sep) }
}
pub open spec fn partial(c: Chunk) -> bool { c is PartialEvent || c is PartialSep }
// a complete event only ever follows the start of the file, a complete event, or a separator
pub open spec fn chunks_ok(cs: Seq<Chunk>) -> bool {
    forall|i: int| 0 <= i < cs.len() && #[trigger] cs[i] is Event ==> (i == 0 || !partial(cs[i - 1]))
}
// cs accounts for a file with content c whose handle has file_needs_recovery == nr:
// a trailing partial chunk implies the flag
pub open spec fn account(cs: Seq<Chunk>, c: Seq<u8>, nr: bool, sep: Seq<u8>) -> bool {
    &&& c == flat(cs, sep)
    &&& chunks_ok(cs)
    &&& (!nr ==> cs.len() == 0 || !partial(cs.last()))
}
pub open spec fn with_sep(cs: Seq<Chunk>, nr: bool) -> Seq<Chunk> { if nr { cs.push(Chunk::Sep) } else { cs } }
pub open spec fn prefix_of(p: Seq<u8>, s: Seq<u8>) -> bool { exists|k: int| 0 <= k <= s.len() && p == s.subrange(0, k) }

proof fn lemma_flat_push(cs: Seq<Chunk>, c: Chunk, sep: Seq<u8>)
    ensures flat(cs.push(c), sep) == flat(cs, sep) + chunk_bytes(c, sep)
{
    assert(cs.push(c).drop_last() =~= cs);
}
proof fn lemma_ok_push(cs: Seq<Chunk>, c: Chunk)
    requires chunks_ok(cs), c is Event ==> cs.len() == 0 || !partial(cs.last())
    ensures chunks_ok(cs.push(c))
{
    let cs1 = cs.push(c);
    assert forall|i: int| 0 <= i < cs1.len() && #[trigger] cs1[i] is Event implies (i == 0 || !partial(cs1[i - 1])) by {
        if i < cs.len() { assert(cs1[i] == cs[i]); if i > 0 { assert(cs1[i - 1] == cs[i - 1]); } }
        else if i > 0 { assert(cs1[i - 1] == cs.last()); }
    }
}

// Every outcome of write_event (the relation its contract ensures) extends an account of the file
// to an account of the new content, by exactly one of:
//   Ok : [Sep]? Event(ev)           Err: PartialSep(p)  (p a prefix of the separator, only if recovery was needed)
//                                   Err: [Sep]? PartialEvent(p)  (p a prefix of ev)
// so a partial chunk appears only where a write failed, and then file_needs_recovery is set.
proof fn lemma_write_event_chunks(cs0: Seq<Chunk>, c0: Seq<u8>, l0: Seq<FsEff>, nr0: bool, sep: Seq<u8>, ev: Seq<u8>,
                                  c1: Seq<u8>, l1: Seq<FsEff>, nr1: bool, ok: bool) -> (cs1: Seq<Chunk>)
    requires
        account(cs0, c0, nr0, sep),
        write_event_rel(c0, l0, nr0, sep, ev, c1, l1, nr1, ok),
    ensures
        account(cs1, c1, nr1, sep),
        ok ==> cs1 == with_sep(cs0, nr0).push(Chunk::Event(ev)) && !nr1,
        !ok ==> nr1 && ({
            ||| nr0 && exists|p: Seq<u8>| prefix_of(p, sep) && cs1 == cs0.push(Chunk::PartialSep(p))
            ||| exists|p: Seq<u8>| prefix_of(p, ev) && cs1 == with_sep(cs0, nr0).push(Chunk::PartialEvent(p))
        }),
{
    let csm = with_sep(cs0, nr0);
    if nr0 { lemma_flat_push(cs0, Chunk::Sep, sep); lemma_ok_push(cs0, Chunk::Sep); }
    assert(flat(csm, sep) == sep_c(c0, nr0, sep));
    assert(chunks_ok(csm));
    assert(csm.len() == 0 || !partial(csm.last()));
    if ok {
        let cs1 = csm.push(Chunk::Event(ev));
        lemma_flat_push(csm, Chunk::Event(ev), sep);
        lemma_ok_push(csm, Chunk::Event(ev));
        cs1
    } else if nr0 && (exists|k: int| 0 <= k <= sep.len() && #[trigger] wrote(c0, l0, sep, k, false, c1, l1)) {
        let k = choose|k: int| 0 <= k <= sep.len() && #[trigger] wrote(c0, l0, sep, k, false, c1, l1);
        let p = sep.subrange(0, k);
        let cs1 = cs0.push(Chunk::PartialSep(p));
        lemma_flat_push(cs0, Chunk::PartialSep(p), sep);
        lemma_ok_push(cs0, Chunk::PartialSep(p));
        assert(prefix_of(p, sep));
        cs1
    } else {
        let k = if nr0 {
            choose|k: int| 0 <= k <= ev.len() && #[trigger] wrote(c0 + sep, l0.push(W(sep, true)), ev, k, false, c1, l1)
        } else {
            choose|k: int| 0 <= k <= ev.len() && #[trigger] wrote(c0, l0, ev, k, false, c1, l1)
        };
        let p = ev.subrange(0, k);
        let cs1 = csm.push(Chunk::PartialEvent(p));
        lemma_flat_push(csm, Chunk::PartialEvent(p), sep);
        lemma_ok_push(csm, Chunk::PartialEvent(p));
        assert(prefix_of(p, ev));
        cs1
    }
}

// =====================================================================================
// the write loop and tail of Worker::on_batch
// =====================================================================================
pub mod emit_batcher {
use vstd::prelude::*;
//@extract batcher/src/lib.rs / struct BatchError
//@rules R1 R2
//@end
//@extract batcher/src/lib.rs / impl BatchError<T> / fn no_retry
//@rules R1 R2 R14
//@ret r
//@sig
        ensures r.retryable is None,
//@end
//@extract batcher/src/lib.rs / impl BatchError<T> / fn retry
//@rules R1 R2 R14
//@ret r
//@sig
        ensures r.retryable == Some(retryable),
//@end
    // batcher/src/sync.rs:97 (re-exported at the crate root): the blocking sibling of Sender::send
    #[verifier::external_body]
    pub fn blocking_send(sender: &super::Sender, item: Box<[u8]>, timeout: core::time::Duration) -> Result<(), BatchError<Box<[u8]>>> { unimplemented!() }
    pub mod sync { pub use super::blocking_send; }
}

use emit_batcher::BatchError;

pub open spec fn ev_bytes(items: Seq<Box<[u8]>>) -> Seq<Seq<u8>> { Seq::new(items.len(), |i: int| items[i]@) }

// file content / effect log after the first k events of evs were written completely, starting
// from (c, l) with file_needs_recovery == nr: only the first event is preceded by the separator
pub open spec fn wrote_c(c: Seq<u8>, nr: bool, sep: Seq<u8>, evs: Seq<Seq<u8>>, k: int) -> Seq<u8>
    decreases k
{
    if k <= 0 { c } else { sep_c(wrote_c(c, nr, sep, evs, k - 1), nr && k == 1, sep) + evs[k - 1] }
}
pub open spec fn wrote_l(l: Seq<FsEff>, nr: bool, sep: Seq<u8>, evs: Seq<Seq<u8>>, k: int) -> Seq<FsEff>
    decreases k
{
    if k <= 0 { l } else { sep_l(wrote_l(l, nr, sep, evs, k - 1), nr && k == 1, sep).push(W(evs[k - 1], true)) }
}
// the failed write_event call at event k
pub open spec fn failed_at(c: Seq<u8>, l: Seq<FsEff>, nr: bool, sep: Seq<u8>, ev: Seq<u8>, l1: Seq<FsEff>) -> bool {
    exists|c1: Seq<u8>| #[trigger] write_event_rel(c, l, nr, sep, ev, c1, l1, true, false)
}
// what is done to the file (content c1, log lw, s0 bytes durable so far) after a failed write, before it is dropped:
//   durable : a flush and then a sync succeeded -- ALL of c1 (the events written completely before the failed one,
//             and the partial record) is durable
//   !durable: the flush failed, or the sync after it did (nothing more is durable than before)
pub open spec fn sync_attempt(c1: Seq<u8>, s0: nat, lw: Seq<FsEff>, l1: Seq<FsEff>, durable: bool) -> bool {
    if durable { l1 == lw.push(FsEff::Flush(true)).push(FsEff::Sync(true, c1.len() as nat)) }
    else { l1 == lw.push(FsEff::Flush(false)) || l1 == lw.push(FsEff::Flush(true)).push(FsEff::Sync(false, s0)) }
}
pub open spec fn failed_then_sync(c: Seq<u8>, l: Seq<FsEff>, nr: bool, sep: Seq<u8>, ev: Seq<u8>, s0: nat, l1: Seq<FsEff>, durable: bool) -> bool {
    exists|c1: Seq<u8>, lw: Seq<FsEff>| #[trigger] write_event_rel(c, l, nr, sep, ev, c1, lw, true, false) && sync_attempt(c1, s0, lw, l1, durable)
}

// .. at event k of the batch (events 0..k were written completely before)
pub open spec fn failed_then_sync_at(c0: Seq<u8>, l0: Seq<FsEff>, nr0: bool, sep: Seq<u8>, evs: Seq<Seq<u8>>, k: int, s0: nat, l1: Seq<FsEff>, durable: bool) -> bool {
    failed_then_sync(wrote_c(c0, nr0, sep, evs, k), wrote_l(l0, nr0, sep, evs, k), nr0 && k == 0, sep, evs[k], s0, l1, durable)
}

pub open spec fn same_config(a: Worker, b: Worker) -> bool {
    &&& a.metrics == b.metrics && a.clock == b.clock && a.rng == b.rng && a.fs == b.fs
    &&& a.roll_by == b.roll_by && a.max_files == b.max_files && a.max_file_size_bytes == b.max_file_size_bytes
    &&& a.reuse_files == b.reuse_files && a.dir == b.dir && a.file_prefix == b.file_prefix && a.file_ext == b.file_ext
    &&& a.separator == b.separator
}

// A write failed at event k and the batch b is handed back for a retry. The file is DROPPED on this path, so what
// the retry must write again depends on what became durable:
//   (a) the events 0..k written completely before the failure were made durable (flush Ok, then sync Ok, after the
//       failed write): b's cursor is ON the failed event k
//   (b) they were not: b's cursor is back at the first event of the batch -- everything is written again (a fault may
//       duplicate an event, it never loses one)
// b holds the very buffers of batch0 (none taken out), which is what makes (b) mean "the remainder contains every event".
pub open spec fn retry_durable(batch0: EventBatch, b: EventBatch, c0: Seq<u8>, l0: Seq<FsEff>, nr0: bool, sep: Seq<u8>, evs: Seq<Seq<u8>>,
                               s0: nat, l1: Seq<FsEff>) -> bool {
    &&& b.wf()
    &&& b.bufs@ =~= batch0.bufs@
    &&& exists|k: int, durable: bool| 0 <= k < evs.len()
            && #[trigger] failed_then_sync_at(c0, l0, nr0, sep, evs, k, s0, l1, durable)
            && (if durable { b.index == batch0.index + k && b.items() =~= batch0.items().skip(k) } else { b.index == 0 })
}
pub open spec fn write_batch_post(w0: Worker, w1: Worker, file0: ActiveFile, batch0: EventBatch, l0: Seq<FsEff>, l1: Seq<FsEff>,
                                  r: Result<(), BatchError<EventBatch>>) -> bool {
    let sep = w0.separator@;
    let evs = ev_bytes(batch0.items());
    let n = evs.len() as int;
    let c0 = file0.file.content();
    let nr0 = file0.file_needs_recovery;
    let cn = wrote_c(c0, nr0, sep, evs, n);
    let ln = wrote_l(l0, nr0, sep, evs, n);
    &&& same_config(w0, w1)
    &&& match r {
        // reported as written: every event completely, in order, and nothing else written; then ONE flush and
        // ONE sync, both Ok, after the last write: all of it is durable; only now does the file become the active file
        Ok(_) => {
            &&& l1 == ln.push(FsEff::Flush(true)).push(FsEff::Sync(true, cn.len() as nat))
            &&& w1.active_file is Some
            &&& ({
                let f = w1.active_file->Some_0;
                &&& f.file.content() == cn
                &&& f.file.flushed() == f.file.content().len()
                &&& f.file.synced() == f.file.content().len()
                &&& f.file_needs_recovery == (nr0 && n == 0)
                &&& f.file_path == file0.file_path && f.file_ts == file0.file_ts
                // the size counter grew by exactly the bytes appended (so it equals the file length
                // whenever it did at the start: 0 for a created file, `len()` for a reused one)
                &&& f.file_size_bytes - file0.file_size_bytes == f.file.content().len() - c0.len()
            })
        },
        Err(e) => {
            // the file is dropped, never made active
            &&& w1.active_file == w0.active_file
            &&& match e.retryable {
                // a failed write: the batch comes back for a retry (F21: never leaving written-but-unsynced events behind)
                Some(b) => retry_durable(batch0, b, c0, l0, nr0, sep, evs, file0.file.synced(), l1),
                // flush or sync failed after every event was written completely: not retryable, and the batch is
                // NOT reported as written
                None => l1 == ln.push(FsEff::Flush(false)) || l1 == ln.push(FsEff::Flush(true)).push(FsEff::Sync(false, file0.file.synced())),
            }
        },
    }
}

// ---- the chunk account at batch level: what write_batch_post's outcomes mean for the file ----
pub open spec fn event_chunks(cs: Seq<Chunk>, nr: bool, evs: Seq<Seq<u8>>, k: int) -> Seq<Chunk>
    decreases k
{
    if k <= 0 { cs } else { with_sep(event_chunks(cs, nr, evs, k - 1), nr && k == 1).push(Chunk::Event(evs[k - 1])) }
}
// k events written completely: the account grows by [Sep]? Event(e0) Event(e1) .. Event(e_{k-1})
proof fn lemma_wrote_chunks(cs0: Seq<Chunk>, c0: Seq<u8>, nr0: bool, sep: Seq<u8>, evs: Seq<Seq<u8>>, k: int)
    requires account(cs0, c0, nr0, sep), 0 <= k <= evs.len()
    ensures account(event_chunks(cs0, nr0, evs, k), wrote_c(c0, nr0, sep, evs, k), nr0 && k == 0, sep)
    decreases k
{
    if k > 0 {
        lemma_wrote_chunks(cs0, c0, nr0, sep, evs, k - 1);
        let cp = wrote_c(c0, nr0, sep, evs, k - 1);
        let csp = event_chunks(cs0, nr0, evs, k - 1);
        let nrp = nr0 && k == 1;
        let l = Seq::<FsEff>::empty();
        let cs1 = lemma_write_event_chunks(csp, cp, l, nrp, sep, evs[k - 1],
            sep_c(cp, nrp, sep) + evs[k - 1], sep_l(l, nrp, sep).push(W(evs[k - 1], true)), false, true);
        assert(cs1 == event_chunks(cs0, nr0, evs, k));
    }
}
// a write failure at event k (the `Some(b)` outcome of write_batch_post): the file is still accounted
// for, the only partial chunk added is the last one, and recovery is flagged (a reopened file always is)
proof fn lemma_failed_batch_chunks(cs0: Seq<Chunk>, c0: Seq<u8>, nr0: bool, sep: Seq<u8>, evs: Seq<Seq<u8>>, k: int,
                                   l: Seq<FsEff>, c1: Seq<u8>, l1: Seq<FsEff>) -> (cs1: Seq<Chunk>)
    requires
        account(cs0, c0, nr0, sep), 0 <= k < evs.len(),
        write_event_rel(wrote_c(c0, nr0, sep, evs, k), l, nr0 && k == 0, sep, evs[k], c1, l1, true, false),
    ensures
        account(cs1, c1, true, sep),
        ({
            let csk = event_chunks(cs0, nr0, evs, k);
            ||| (nr0 && k == 0) && exists|p: Seq<u8>| prefix_of(p, sep) && cs1 == csk.push(Chunk::PartialSep(p))
            ||| exists|p: Seq<u8>| prefix_of(p, evs[k]) && cs1 == with_sep(csk, nr0 && k == 0).push(Chunk::PartialEvent(p))
        }),
{
    lemma_wrote_chunks(cs0, c0, nr0, sep, evs, k);
    lemma_write_event_chunks(event_chunks(cs0, nr0, evs, k), wrote_c(c0, nr0, sep, evs, k), l, nr0 && k == 0, sep, evs[k], c1, l1, true, false)
}
