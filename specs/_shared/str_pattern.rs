// specs/_shared/str_pattern.rs - assumed std contracts of `str` methods that take a `Pattern` (needs
// `#![feature(pattern)]` and `use core::str::pattern::Pattern;` in the including unit). `pat_text` = the text a
// pattern value stands for; the two std impls used (a `char` matches itself, a `&str` its content) are assumed facts.
#[verifier::external_trait_specification]
pub trait ExPattern: Sized {
    type ExternalTraitSpecificationFor: Pattern;
}
pub uninterp spec fn pat_text<P>(p: P) -> Seq<char>;
pub assume_specification<P: Pattern> [str::starts_with::<P>](s: &str, p: P) -> (r: bool)
    ensures r == (pat_text(p).len() <= s@.len() && s@.subrange(0, pat_text(p).len() as int) == pat_text(p));
pub assume_specification<P: Pattern> [str::strip_prefix::<P>](s: &str, p: P) -> (r: Option<&str>)
    ensures
        r is Some <==> (pat_text(p).len() <= s@.len() && s@.subrange(0, pat_text(p).len() as int) == pat_text(p)),
        r is Some ==> r->Some_0@ == s@.subrange(pat_text(p).len() as int, s@.len() as int);
#[verifier::external_body]
pub broadcast proof fn axiom_pattern_char(c: char) ensures #[trigger] pat_text::<char>(c) == seq![c] {}
#[verifier::external_body]
pub broadcast proof fn axiom_pattern_str(p: &str) ensures #[trigger] pat_text::<&str>(p) == p@ {}
