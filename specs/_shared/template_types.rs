// Shared by core_template_eq / core_template_render: the dependency types `Part`/`PartKind`
// (core/src/template.rs) are built from, as trusted mirrors; the real type definitions of
// PartKind, Part, TemplateKind, Template; the real `TemplateKind::parts` under contract.

// Mirror of `emit_core::str::Str` (core/src/str.rs:28-34: raw pointer + owner, an optimised
// `Cow<str>`); its meaning is the UTF-8 bytes of the string it holds.
#[verifier::external_body]
pub struct Str<'k> { v: &'k str }
impl<'k> Str<'k> {
    pub uninterp spec fn bytes(&self) -> Seq<u8>;
    // str.rs:150 `pub const fn get(&self) -> &str`
    #[verifier::external_body]
    pub fn get(&self) -> (r: &str) ensures r.spec_bytes() == self.bytes() { self.v }
}
// constructors / conversions (str.rs:110 new, :125 new_ref, :136 by_ref, :393 to_owned): all keep the text
impl Str<'static> {
    #[verifier::external_body]
    pub const fn new(k: &'static str) -> (r: Self) ensures r.bytes() == k.spec_bytes() { Str { v: k } }
}
impl<'k> Str<'k> {
    #[verifier::external_body]
    pub const fn new_ref(k: &'k str) -> (r: Str<'k>) ensures r.bytes() == k.spec_bytes() { Str { v: k } }
    #[verifier::external_body]
    pub const fn by_ref<'b>(&'b self) -> (r: Str<'b>) ensures r.bytes() == self.bytes() { Str { v: self.v } }
    #[verifier::external_body]
    pub fn to_owned(&self) -> (r: Str<'static>) ensures r.bytes() == self.bytes() { unimplemented!() }
}
// str.rs:335 `Str::new_owned(key: impl Into<Box<str>>)`: holds the text `key.into()` is
pub uninterp spec fn boxed_str_bytes<T>(key: T) -> Seq<u8>;
impl Str<'static> {
    #[verifier::external_body]
    pub fn new_owned<T: Into<Box<str>>>(key: T) -> (r: Self) ensures r.bytes() == boxed_str_bytes(key) { unimplemented!() }
}
impl<'k> Clone for Str<'k> {
    #[verifier::external_body]
    fn clone(&self) -> (r: Self) ensures r == *self { Str { v: self.v } }
}
// str.rs:178-182 `impl PartialEq<Str<'b>> for Str<'a> { fn eq(..) { self.get() == other.get() } }`
impl<'a, 'b> vstd::std_specs::cmp::PartialEqSpecImpl<Str<'b>> for Str<'a> {
    open spec fn obeys_eq_spec() -> bool { true }
    open spec fn eq_spec(&self, other: &Str<'b>) -> bool { self.bytes() == other.bytes() }
}
impl<'a, 'b> PartialEq<Str<'b>> for Str<'a> {
    #[verifier::external_body]
    fn eq(&self, other: &Str<'b>) -> (r: bool) { self.v == other.v }
}

// Mirror of `template::Formatter` (template.rs:627-630: one `fn` pointer); opaque, compared by identity.
#[verifier::external_body]
pub struct Formatter { f: fn(u8) -> u8 }
impl Clone for Formatter {
    #[verifier::external_body]
    fn clone(&self) -> (r: Self) ensures r == *self { Formatter { f: self.f } }
}

//@extract core/src/template.rs / enum PartKind
//@rules R1 R2
//@end
//@extract core/src/template.rs / struct Part
//@rules R1 R2
//@end
//@extract core/src/template.rs / enum TemplateKind
//@rules R1 R2
//@end
//@extract core/src/template.rs / struct Template
//@rules R1 R2
//@end

// What a part is, representation aside: its kind, its text or label bytes, and its formatter.
// Rendering (`part_call`) and equality (`flat`) depend on a part only through this view.
pub enum PartView { Text(Seq<u8>), Hole(Seq<u8>, Option<Formatter>) }
pub open spec fn part_view(p: Part) -> PartView {
    match p.0 {
        PartKind::Text { value } => PartView::Text(value.bytes()),
        PartKind::Hole { label, formatter } => PartView::Hole(label.bytes(), formatter),
    }
}
pub open spec fn parts_view(parts: Seq<Part>) -> Seq<PartView> {
    Seq::new(parts.len(), |i: int| part_view(parts[i]))
}

// "this slice iterator yields exactly the elements of s, in order": stated as an invariant of every
// `for` over parts so that the loop does not depend on how the iterated expression is written
#[verifier::prophetic]
pub open spec fn iter_items<'a, T>(it: core::slice::Iter<'a, T>, s: Seq<T>) -> bool {
    vstd::std_specs::iter::IteratorSpec::remaining(&it) =~= s.map_values(|p: T| &p)
}

impl<'a> TemplateKind<'a> {
    pub open spec fn view(&self) -> Seq<Part<'a>> {
        match *self {
            TemplateKind::Literal(parts) => parts@,
            TemplateKind::Parts(parts) => parts@,
            TemplateKind::Owned(parts) => parts@,
        }
    }
}
impl<'a> Template<'a> {
    // the part sequence of a template, whatever its representation
    pub open spec fn view(&self) -> Seq<Part<'a>> { self.0@ }
}

//@extract core/src/template.rs / impl TemplateKind<'a> / fn parts
//@rules R1 R2
//@ret r
//@sig
    ensures r@ == self@,
//@replace R1 arm#2
            TemplateKind::Owned(parts) => parts,
//@end

