// Shared by core_props_enum, core_props_default, core_props_dedup and core_props_maps (C02): the ghost trace of
// visitor calls and THE call-sequence contract of `Props::for_each` (`enumerated`).

// ---------------------------------------------------------------- the ghost trace of visitor calls (R9)
//
// Every call of the visitor goes through `visit`, which appends (key view, value view,
// "the visitor answered Break") to a ghost trace; the trace is threaded through every
// delegated `for_each`. The contract of `for_each` is a statement about that trace.

pub struct Call { pub k: Key, pub v: Val, pub brk: bool }

pub tracked struct Trace { pub ghost calls: Seq<Call> }

impl Trace {
    pub proof fn push(tracked &mut self, c: Call)
        ensures final(self).calls == old(self).calls.push(c)
    {
        self.calls = self.calls.push(c);
    }
}

// the calls made by enumerating the first n pairs of `kvs`: all of them answered Continue,
// except that the last one answered Break iff `brk`
pub open spec fn calls_of(kvs: Seq<Kv>, n: int, brk: bool) -> Seq<Call> {
    Seq::new(n as nat, |i: int| Call { k: kvs[i].0, v: kvs[i].1, brk: brk && i == n - 1 })
}

// THE call-sequence contract. Between trace t0 and trace t1 the visitor was called with exactly
// a prefix of `kvs`, in order; no call was made after one that answered Break; the enumeration
// returns Break iff the last call answered Break (`brk`), and if it returns Continue the prefix
// is all of `kvs`.
pub open spec fn enumerated(kvs: Seq<Kv>, t0: Seq<Call>, t1: Seq<Call>, brk: bool) -> bool {
    let n = t1.len() - t0.len();
    &&& 0 <= n <= kvs.len()
    &&& t1 =~= t0 + calls_of(kvs, n, brk)
    &&& (brk ==> n > 0)
    &&& (!brk ==> n == kvs.len())
}

// R9: the one place where the visitor is invoked
fn visit<'kv, F: FnMut(Str<'kv>, Value<'kv>) -> ControlFlow<()>>(k: Str<'kv>, v: Value<'kv>, mut f: F, Tracked(t): Tracked<&mut Trace>) -> (r: ControlFlow<()>)
    requires forall|g: F, k: Str<'kv>, v: Value<'kv>| g.requires((k, v)),
    ensures final(t).calls == old(t).calls.push(Call { k: k@, v: v@, brk: r is Break }),
{
    let r = f(k, v);
    proof { t.push(Call { k: k@, v: v@, brk: r is Break }); }
    r
}

pub proof fn lemma_enum_empty(t: Seq<Call>)
    ensures enumerated(Seq::<Kv>::empty(), t, t, false)
{
}

pub proof fn lemma_enum_single(kv: Kv, t: Seq<Call>, brk: bool)
    ensures enumerated(seq![kv], t, t.push(Call { k: kv.0, v: kv.1, brk: brk }), brk)
{
}

pub proof fn lemma_enum_concat(l: Seq<Kv>, r: Seq<Kv>, t0: Seq<Call>, t1: Seq<Call>, t2: Seq<Call>, brk: bool)
    requires enumerated(l, t0, t1, false), enumerated(r, t1, t2, brk)
    ensures enumerated(l + r, t0, t2, brk)
{
    let n2 = t2.len() - t1.len();
    assert(t0 + calls_of(l + r, l.len() + n2, brk) =~= (t0 + calls_of(l, l.len() as int, false)) + calls_of(r, n2, brk));
}

pub proof fn lemma_enum_break_ext(l: Seq<Kv>, r: Seq<Kv>, t0: Seq<Call>, t1: Seq<Call>)
    requires enumerated(l, t0, t1, true)
    ensures enumerated(l + r, t0, t1, true)
{
    let n = t1.len() - t0.len();
    assert(calls_of(l + r, n, true) =~= calls_of(l, n, true));
}

// both facts for every later trace (usable before a statement whose result is not yet known)
pub proof fn lemma_enum_seq(l: Seq<Kv>, r: Seq<Kv>, t0: Seq<Call>)
    ensures
        forall|t1: Seq<Call>| #[trigger] enumerated(l, t0, t1, true) ==> enumerated(l + r, t0, t1, true),
        forall|t1: Seq<Call>, t2: Seq<Call>, b: bool| #![trigger enumerated(l, t0, t1, false), enumerated(r, t1, t2, b)]
            enumerated(l, t0, t1, false) && enumerated(r, t1, t2, b) ==> enumerated(l + r, t0, t2, b),
{
    assert forall|t1: Seq<Call>| #[trigger] enumerated(l, t0, t1, true) implies enumerated(l + r, t0, t1, true) by {
        lemma_enum_break_ext(l, r, t0, t1);
    }
    assert forall|t1: Seq<Call>, t2: Seq<Call>, b: bool| #![trigger enumerated(l, t0, t1, false), enumerated(r, t1, t2, b)]
        enumerated(l, t0, t1, false) && enumerated(r, t1, t2, b) implies enumerated(l + r, t0, t2, b) by {
        lemma_enum_concat(l, r, t0, t1, t2, b);
    }
}

// std (trusted): the two predicates a maintainer could test a visitor's / an enumeration's result with
pub assume_specification<B, C> [ControlFlow::<B, C>::is_break](c: &ControlFlow<B, C>) -> (r: bool) ensures r == (c is Break);
pub assume_specification<B, C> [ControlFlow::<B, C>::is_continue](c: &ControlFlow<B, C>) -> (r: bool) ensures r == (c is Continue);
