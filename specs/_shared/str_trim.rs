// specs/_shared/str_trim.rs - assumed std contracts of the `str::trim*` family over an explicit White_Space
// definition (included by emit_level_parse.vx and emit_kind.vx)
// std: str::trim strips Unicode White_Space (char::is_whitespace) from both ends
pub open spec fn is_ws(c: char) -> bool {
    let u = c as u32;
    (0x9 <= u <= 0xd) || u == 0x20 || u == 0x85 || u == 0xa0 || u == 0x1680 || (0x2000 <= u <= 0x200a)
        || u == 0x2028 || u == 0x2029 || u == 0x202f || u == 0x205f || u == 0x3000
}
pub open spec fn trim_start(s: Seq<char>) -> Seq<char> decreases s.len() {
    if s.len() > 0 && is_ws(s[0]) { trim_start(s.drop_first()) } else { s }
}
pub open spec fn trim_end(s: Seq<char>) -> Seq<char> decreases s.len() {
    if s.len() > 0 && is_ws(s.last()) { trim_end(s.drop_last()) } else { s }
}
pub open spec fn trimmed(s: Seq<char>) -> Seq<char> { trim_end(trim_start(s)) }
pub assume_specification [str::trim](s: &str) -> (r: &str) ensures r@ == trimmed(s@);
// siblings (same reason as above)
pub assume_specification [str::trim_start](s: &str) -> (r: &str) ensures r@ == trim_start(s@);
pub assume_specification [str::trim_end](s: &str) -> (r: &str) ensures r@ == trim_end(s@);
pub open spec fn is_ascii_ws(c: char) -> bool { c == ' ' || c == '\t' || c == '\n' || c == '\x0c' || c == '\r' }
pub open spec fn trim_ascii_start_spec(s: Seq<char>) -> Seq<char> decreases s.len() {
    if s.len() > 0 && is_ascii_ws(s[0]) { trim_ascii_start_spec(s.drop_first()) } else { s }
}
pub open spec fn trim_ascii_end_spec(s: Seq<char>) -> Seq<char> decreases s.len() {
    if s.len() > 0 && is_ascii_ws(s.last()) { trim_ascii_end_spec(s.drop_last()) } else { s }
}
pub assume_specification [str::trim_ascii](s: &str) -> (r: &str) ensures r@ == trim_ascii_end_spec(trim_ascii_start_spec(s@));
pub assume_specification [str::trim_ascii_start](s: &str) -> (r: &str) ensures r@ == trim_ascii_start_spec(s@);
pub assume_specification [str::trim_ascii_end](s: &str) -> (r: &str) ensures r@ == trim_ascii_end_spec(s@);
