// Shared by core_template_eq / core_template_repr: the canonical form of a part sequence.
// ---------- canonical form ----------
pub enum Tok { Byte(u8), Hole(Seq<u8>) }

pub open spec fn byte_toks(s: Seq<u8>) -> Seq<Tok> { Seq::new(s.len(), |i: int| Tok::Byte(s[i])) }

pub open spec fn part_toks(p: Part) -> Seq<Tok> {
    match p.0 {
        PartKind::Text { value } => byte_toks(value.bytes()),
        PartKind::Hole { label, .. } => seq![Tok::Hole(label.bytes())],
    }
}
// what a template means: its text bytes and holes in order, fragment boundaries forgotten
pub open spec fn flat(parts: Seq<Part>) -> Seq<Tok>
    decreases parts.len()
{
    if parts.len() == 0 { Seq::empty() } else { flat(parts.drop_last()) + part_toks(parts.last()) }
}
pub open spec fn tpl_eq(a: Seq<Part>, b: Seq<Part>) -> bool { flat(a) == flat(b) }
