// The enter/exit contract of a context that keeps ONE ambient slot per thread and one
// stored value per frame (src/platform/thread_local_ctxt.rs:161-167 claims it,
// traceparent/src/lib.rs:859-873 is proved to meet it in unit traceparent_step):
// an active frame SWAPS its stored value with the slot, an inactive frame touches nothing.
// (frame0, slot0) = values before the call, (frame1, slot1) = values after it.
pub open spec fn swap_post<V>(active: bool, frame0: V, slot0: V, frame1: V, slot1: V) -> bool {
    if active {
        slot1 == frame0 && frame1 == slot0
    } else {
        slot1 == slot0 && frame1 == frame0
    }
}
