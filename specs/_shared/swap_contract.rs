// The enter/exit contract of a context that keeps ONE ambient slot per thread and one
// stored value per frame. Both implementations in the tree are PROVED to meet it:
//   * TraceparentCtxt::{enter, exit} (traceparent/src/lib.rs:859-873), unit traceparent_step;
//   * ThreadLocalCtxt::{enter, exit} via swap() (src/platform/thread_local_ctxt.rs:164-170,
//     202-212), unit emit_thread_local_ctxt: one slot per context id (an id without an entry
//     shows the empty frame), every frame active, other ids untouched.
// an active frame SWAPS its stored value with the slot, an inactive frame touches nothing.
// (frame0, slot0) = values before the call, (frame1, slot1) = values after it.
pub open spec fn swap_post<V>(active: bool, frame0: V, slot0: V, frame1: V, slot1: V) -> bool {
    if active {
        slot1 == frame0 && frame1 == slot0
    } else {
        slot1 == slot0 && frame1 == frame0
    }
}
