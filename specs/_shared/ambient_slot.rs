// Shared vocabulary + contract CLAUSES of `emit_core::runtime::AmbientSlot` (core/src/runtime.rs:586-761).
// Included by `core_ambient_slot` (which PROVES the clauses for the real text of AmbientSlot::{init,get,is_enabled}
// against a model of std's OnceLock) and by `emit_setup` (which ASSUMES them for the slot its init functions call).
// Expects `struct Runtime` and `struct Empty` (real text) to be in scope.

// a component after type erasure (`Box::new(c) as Box<dyn Any.. + Send + Sync>`): an uninterpreted image of the
// value AND its type, so a component of another type (e.g. the `Empty` that `Runtime::new()` starts with) is never
// provably the configured one
#[verifier::external_body]
pub struct Erased {}
pub uninterp spec fn erased<T>(t: T) -> Erased;

// what a runtime is made of, type-erased: ALL five components together
pub ghost struct RtView {
    pub emitter: Erased,
    pub filter: Erased,
    pub ctxt: Erased,
    pub clock: Erased,
    pub rng: Erased,
}

pub open spec fn rt_view<E, F, C, K, R>(rt: Runtime<E, F, C, K, R>) -> RtView {
    RtView {
        emitter: erased(rt.emitter),
        filter: erased(rt.filter),
        ctxt: erased(rt.ctxt),
        clock: erased(rt.clock),
        rng: erased(rt.rng),
    }
}

// runtime.rs:699-705 `EMPTY_AMBIENT_RUNTIME`: all five components are `Empty`
pub open spec fn empty_rt_view() -> RtView {
    rt_view(Runtime { emitter: Empty, filter: Empty, ctxt: Empty, clock: Empty, rng: Empty })
}

// CLAUSE init (runtime.rs:649-693). `found` = what the slot holds at THE step of this call that tries to install
// (`OnceLock::set`), `left` = what it holds right after that step, both as erased runtimes:
//   * already initialised: the result is None and the slot keeps what it has (whatever `pipeline` is);
//   * empty: the slot now holds exactly the five components of `pipeline` - all five from this one argument - and
//     the result is Some of the references to these five installed components.
// In particular: Some is returned iff this call's step found the slot empty.
pub open spec fn slot_init_step<E, F, C, K, R>(
    found: Option<RtView>,
    left: Option<RtView>,
    pipeline: Runtime<E, F, C, K, R>,
    r: Option<Runtime<&E, &F, &C, &K, &R>>,
) -> bool {
    &&& found is Some ==> r is None && left == found
    &&& found is None ==> left == Some(rt_view(pipeline))
            && r == Some(Runtime {
                emitter: &pipeline.emitter,
                filter: &pipeline.filter,
                ctxt: &pipeline.ctxt,
                clock: &pipeline.clock,
                rng: &pipeline.rng,
            })
}

// CLAUSE get (runtime.rs:698-717). `found` = what the slot holds at the (last) read step of this call; the result
// shows the five components of THAT runtime together, or the constant all-`Empty` runtime if the slot is empty
pub open spec fn slot_get_step(found: Option<RtView>, r: RtView) -> bool {
    r == (match found { Some(v) => v, None => empty_rt_view() })
}

// CLAUSE is_enabled (runtime.rs:640-642)
pub open spec fn slot_enabled_step(found: Option<RtView>, r: bool) -> bool {
    r == (found is Some)
}
