// Facts about a generated token stream that harmless generated statements / bindings / reorderings of independent
// statements cannot falsify. Each predicate is an INDUCTIVE DEFINITION BY RULES over the constructors of the token
// model (empty, push, +, grp): the rules below are its defining clauses (stated as axioms: `external_body` broadcast
// lemmas; only introduction rules are given for the positive predicates, and structural equations for `cnt`).
//   cnt(ts, a)            how often the input atom `In(a)` occurs in ts, at any depth               (exact)
//   hasw(ts, w)           the word w occurs in ts, at any depth
//   abefore(ts, a, b)     some occurrence of atom a comes before some occurrence of atom b (flattened order)
//   wbefore(ts, w, a)     some occurrence of word w comes before some occurrence of atom a (flattened order)
//   sim(ts, pat)          ts is pat, where `Tok::Any` in pat stands for any one word
//   has_call(ts, p, A)    at some depth: the five path tokens p directly followed by `( a0, a1, .., )` with the
//                         argument streams sim A (every argument followed by a comma)
//   has_mcall(ts, m)      at some depth: `. m ( .. )`
//   in_move_block(ts, a)  at some depth: `move { B }` or `move || { B }` where B contains atom a and the word `start`
//                         before it
//   awaited_future(ts)    at some depth: `. in_future ( .. ) . await`
//   hasstr(ts, v)         a string literal with value v occurs in ts, at any depth
//   has_sub(ts, sub)      the stream sub was spliced into ts as a whole (`.. + sub`), at any depth
pub uninterp spec fn cnt(ts: Seq<Tok>, a: int) -> int;
pub uninterp spec fn tcnt(t: Tok, a: int) -> int;
pub uninterp spec fn hasw(ts: Seq<Tok>, wd: Seq<char>) -> bool;
pub uninterp spec fn thasw(t: Tok, wd: Seq<char>) -> bool;
pub uninterp spec fn abefore(ts: Seq<Tok>, a: int, b: int) -> bool;
pub uninterp spec fn wbefore(ts: Seq<Tok>, wd: Seq<char>, a: int) -> bool;
pub uninterp spec fn sim(ts: Seq<Tok>, pat: Seq<Tok>) -> bool;
pub uninterp spec fn tsim(t: Tok, pat: Tok) -> bool;
pub uninterp spec fn has_call(ts: Seq<Tok>, p: Seq<Tok>, args: Seq<Seq<Tok>>) -> bool;
pub uninterp spec fn has_mcall(ts: Seq<Tok>, m: Seq<char>) -> bool;
pub uninterp spec fn in_move_block(ts: Seq<Tok>, a: int) -> bool;
pub uninterp spec fn awaited_future(ts: Seq<Tok>) -> bool;

pub uninterp spec fn hasstr(ts: Seq<Tok>, v: Seq<char>) -> bool;
pub uninterp spec fn has_sub(ts: Seq<Tok>, sub: Seq<Tok>) -> bool;

pub open spec fn atom(a: int) -> Seq<Tok> { e().push(Tok::In(a)) }
pub open spec fn path5(a: Tok, b: Tok, c: Tok, d: Tok, f: Tok) -> Seq<Tok> { e().push(a).push(b).push(c).push(d).push(f) }

// ---- cnt ----
#[verifier::external_body]
pub broadcast proof fn ax_cnt_empty(a: int) ensures #[trigger] cnt(Seq::<Tok>::empty(), a) == 0 {}
#[verifier::external_body]
pub broadcast proof fn ax_cnt_push(s: Seq<Tok>, t: Tok, a: int) ensures #[trigger] cnt(s.push(t), a) == cnt(s, a) + tcnt(t, a) {}
#[verifier::external_body]
pub broadcast proof fn ax_cnt_add(s1: Seq<Tok>, s2: Seq<Tok>, a: int) ensures #[trigger] cnt(s1 + s2, a) == cnt(s1, a) + cnt(s2, a) {}
#[verifier::external_body]
pub broadcast proof fn ax_cnt_nonneg(s: Seq<Tok>, a: int) ensures #[trigger] cnt(s, a) >= 0 {}
#[verifier::external_body]
pub broadcast proof fn ax_tcnt(t: Tok, a: int)
    ensures #[trigger] tcnt(t, a) == (match t {
        Tok::In(i) => if i == a { 1int } else { 0int },
        Tok::G(d, x) => cnt(x, a),
        _ => 0int,
    })
{}
// ---- hasw ----
#[verifier::external_body]
pub broadcast proof fn ax_hasw_push(s: Seq<Tok>, t: Tok, wd: Seq<char>)
    ensures (hasw(s, wd) || thasw(t, wd)) ==> #[trigger] hasw(s.push(t), wd) {}
#[verifier::external_body]
pub broadcast proof fn ax_hasw_add(s1: Seq<Tok>, s2: Seq<Tok>, wd: Seq<char>)
    ensures (hasw(s1, wd) || hasw(s2, wd)) ==> #[trigger] hasw(s1 + s2, wd) {}
#[verifier::external_body]
pub broadcast proof fn ax_thasw(t: Tok, wd: Seq<char>)
    ensures (match t {
        Tok::W(x) => x == wd,
        Tok::G(d, x) => hasw(x, wd),
        _ => false,
    }) ==> #[trigger] thasw(t, wd)
{}
// ---- abefore / wbefore ----
#[verifier::external_body]
pub broadcast proof fn ax_abefore_push(s: Seq<Tok>, t: Tok, a: int, b: int)
    ensures (abefore(s, a, b) || (cnt(s, a) > 0 && tcnt(t, b) > 0) || (t is G && abefore(t->G_1, a, b))) ==> #[trigger] abefore(s.push(t), a, b) {}
#[verifier::external_body]
pub broadcast proof fn ax_abefore_add(s1: Seq<Tok>, s2: Seq<Tok>, a: int, b: int)
    ensures (abefore(s1, a, b) || abefore(s2, a, b) || (cnt(s1, a) > 0 && cnt(s2, b) > 0)) ==> #[trigger] abefore(s1 + s2, a, b) {}
#[verifier::external_body]
pub broadcast proof fn ax_wbefore_push(s: Seq<Tok>, t: Tok, wd: Seq<char>, a: int)
    ensures (wbefore(s, wd, a) || (hasw(s, wd) && tcnt(t, a) > 0) || (t is G && wbefore(t->G_1, wd, a))) ==> #[trigger] wbefore(s.push(t), wd, a) {}
#[verifier::external_body]
pub broadcast proof fn ax_wbefore_add(s1: Seq<Tok>, s2: Seq<Tok>, wd: Seq<char>, a: int)
    ensures (wbefore(s1, wd, a) || wbefore(s2, wd, a) || (hasw(s1, wd) && cnt(s2, a) > 0)) ==> #[trigger] wbefore(s1 + s2, wd, a) {}
// ---- sim ----
#[verifier::external_body]
pub broadcast proof fn ax_sim_ext(s: Seq<Tok>, p: Seq<Tok>) ensures s =~= p ==> #[trigger] sim(s, p) {}
#[verifier::external_body]
pub broadcast proof fn ax_sim_push(s: Seq<Tok>, t: Tok, p: Seq<Tok>, u: Tok)
    ensures (sim(s, p) && tsim(t, u)) ==> #[trigger] sim(s.push(t), p.push(u)) {}
#[verifier::external_body]
pub broadcast proof fn ax_sim_add(s1: Seq<Tok>, s2: Seq<Tok>, p1: Seq<Tok>, p2: Seq<Tok>)
    ensures (sim(s1, p1) && sim(s2, p2)) ==> #[trigger] sim(s1 + s2, p1 + p2) {}
#[verifier::external_body]
pub broadcast proof fn ax_tsim(t: Tok, u: Tok)
    ensures (t == u || (u is Any && t is W) || (t is G && u is G && t->G_0 == u->G_0 && sim(t->G_1, u->G_1))) ==> #[trigger] tsim(t, u) {}
// ---- has_call ----
#[verifier::external_body]
pub broadcast proof fn ax_call_new(s: Seq<Tok>, a: Tok, b: Tok, c: Tok, d: Tok, f: Tok, x: Seq<Tok>, args: Seq<Seq<Tok>>)
    ensures sim(x, args_trailing(args, args.len() as int))
        ==> #[trigger] has_call(s.push(a).push(b).push(c).push(d).push(f).push(grp(Delim::Paren, x)), path5(a, b, c, d, f), args) {}
#[verifier::external_body]
pub broadcast proof fn ax_call_push(s: Seq<Tok>, t: Tok, p: Seq<Tok>, args: Seq<Seq<Tok>>)
    ensures (has_call(s, p, args) || (t is G && has_call(t->G_1, p, args))) ==> #[trigger] has_call(s.push(t), p, args) {}
#[verifier::external_body]
pub broadcast proof fn ax_call_add(s1: Seq<Tok>, s2: Seq<Tok>, p: Seq<Tok>, args: Seq<Seq<Tok>>)
    ensures (has_call(s1, p, args) || has_call(s2, p, args)) ==> #[trigger] has_call(s1 + s2, p, args) {}
// ---- has_mcall ----
#[verifier::external_body]
pub broadcast proof fn ax_mcall_new(s: Seq<Tok>, m: Seq<char>, x: Seq<Tok>)
    ensures #[trigger] has_mcall(s.push(Tok::W("."@)).push(Tok::W(m)).push(grp(Delim::Paren, x)), m) {}
#[verifier::external_body]
pub broadcast proof fn ax_mcall_push(s: Seq<Tok>, t: Tok, m: Seq<char>)
    ensures (has_mcall(s, m) || (t is G && has_mcall(t->G_1, m))) ==> #[trigger] has_mcall(s.push(t), m) {}
#[verifier::external_body]
pub broadcast proof fn ax_mcall_add(s1: Seq<Tok>, s2: Seq<Tok>, m: Seq<char>)
    ensures (has_mcall(s1, m) || has_mcall(s2, m)) ==> #[trigger] has_mcall(s1 + s2, m) {}
// ---- in_move_block ----
#[verifier::external_body]
pub broadcast proof fn ax_move_new1(s: Seq<Tok>, x: Seq<Tok>, a: int)
    ensures (cnt(x, a) > 0 && wbefore(x, "start"@, a)) ==> #[trigger] in_move_block(s.push(Tok::W("move"@)).push(grp(Delim::Brace, x)), a) {}
#[verifier::external_body]
pub broadcast proof fn ax_move_new2(s: Seq<Tok>, x: Seq<Tok>, a: int)
    ensures (cnt(x, a) > 0 && wbefore(x, "start"@, a)) ==> #[trigger] in_move_block(s.push(Tok::W("move"@)).push(Tok::W("||"@)).push(grp(Delim::Brace, x)), a) {}
#[verifier::external_body]
pub broadcast proof fn ax_move_push(s: Seq<Tok>, t: Tok, a: int)
    ensures (in_move_block(s, a) || (t is G && in_move_block(t->G_1, a))) ==> #[trigger] in_move_block(s.push(t), a) {}
#[verifier::external_body]
pub broadcast proof fn ax_move_add(s1: Seq<Tok>, s2: Seq<Tok>, a: int)
    ensures (in_move_block(s1, a) || in_move_block(s2, a)) ==> #[trigger] in_move_block(s1 + s2, a) {}
// ---- awaited_future ----
#[verifier::external_body]
pub broadcast proof fn ax_await_new(s: Seq<Tok>, x: Seq<Tok>)
    ensures #[trigger] awaited_future(s.push(Tok::W("."@)).push(Tok::W("in_future"@)).push(grp(Delim::Paren, x)).push(Tok::W("."@)).push(Tok::W("await"@))) {}
#[verifier::external_body]
pub broadcast proof fn ax_await_push(s: Seq<Tok>, t: Tok)
    ensures (awaited_future(s) || (t is G && awaited_future(t->G_1))) ==> #[trigger] awaited_future(s.push(t)) {}
#[verifier::external_body]
pub broadcast proof fn ax_await_add(s1: Seq<Tok>, s2: Seq<Tok>)
    ensures (awaited_future(s1) || awaited_future(s2)) ==> #[trigger] awaited_future(s1 + s2) {}

// ---- hasstr ----
#[verifier::external_body]
pub broadcast proof fn ax_hasstr_push(s: Seq<Tok>, t: Tok, v: Seq<char>)
    ensures (hasstr(s, v) || t == Tok::Str(v) || (t is G && hasstr(t->G_1, v))) ==> #[trigger] hasstr(s.push(t), v) {}
#[verifier::external_body]
pub broadcast proof fn ax_hasstr_add(s1: Seq<Tok>, s2: Seq<Tok>, v: Seq<char>)
    ensures (hasstr(s1, v) || hasstr(s2, v)) ==> #[trigger] hasstr(s1 + s2, v) {}
// ---- has_sub ----
#[verifier::external_body]
pub broadcast proof fn ax_sub_self(s: Seq<Tok>) ensures #[trigger] has_sub(s, s) {}
#[verifier::external_body]
pub broadcast proof fn ax_sub_push(s: Seq<Tok>, t: Tok, sub: Seq<Tok>)
    ensures (has_sub(s, sub) || (t is G && has_sub(t->G_1, sub))) ==> #[trigger] has_sub(s.push(t), sub) {}
#[verifier::external_body]
pub broadcast proof fn ax_sub_add(s1: Seq<Tok>, s2: Seq<Tok>, sub: Seq<Tok>)
    ensures (has_sub(s1, sub) || has_sub(s2, sub)) ==> #[trigger] has_sub(s1 + s2, sub) {}

pub broadcast group facts {
    ax_hasstr_push, ax_hasstr_add, ax_sub_self, ax_sub_push, ax_sub_add,
    ax_cnt_empty, ax_cnt_push, ax_cnt_add, ax_cnt_nonneg, ax_tcnt,
    ax_hasw_push, ax_hasw_add, ax_thasw,
    ax_abefore_push, ax_abefore_add, ax_wbefore_push, ax_wbefore_add,
    ax_sim_ext, ax_sim_push, ax_sim_add, ax_tsim,
    ax_call_new, ax_call_push, ax_call_add,
    ax_mcall_new, ax_mcall_push, ax_mcall_add,
    ax_move_new1, ax_move_new2, ax_move_push, ax_move_add,
    ax_await_new, ax_await_push, ax_await_add,
}
