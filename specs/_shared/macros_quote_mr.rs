// Mirror of the `quote` crate's macros BY THE REAL TOKENS of their bodies (rule R10 by token pattern, as
// `split_mirror!` in file_set.vx). `quote!(BODY)` builds a proc_macro2::TokenStream from BODY: every token of
// BODY is appended as written, `#x` appends the tokens of `x` (ToTokens), `#(#x),*` the tokens of every item of
// `x` separated by `,`, and `( .. )` `[ .. ]` `{ .. }` become a delimited group of the (recursively quoted)
// inside. The mirror does exactly that on the ghost token model of _shared/macros_tokens.rs: one call per
// token, in source order. What is NOT modelled: spans (`quote_spanned!(s=> ..)` = `quote!(..)`; spans only
// affect diagnostics / hygiene), and the split of multi-character punctuation into joint `Punct`s (the
// model's tokens are macro_rules token trees: `::` is one token).
macro_rules! quote {
    ($($tt:tt)*) => {{
        #[allow(unused_mut)]
        let mut __ts = TokenStream::new();
        quote_push!(__ts; $($tt)*);
        __ts
    }};
}
macro_rules! quote_spanned {
    ($span:expr => $($tt:tt)*) => { quote!($($tt)*) };
}
macro_rules! quote_push {
    ($ts:ident; ) => {};
    // `#(#x),*`  /  `#(#x)*`: every item of x, separated by `,` / by nothing
    ($ts:ident; # ( # $v:ident ) , * $($rest:tt)*) => { $ts.push_rep_comma(&$v); quote_push!($ts; $($rest)*); };
    ($ts:ident; # ( # $v:ident ) * $($rest:tt)*) => { $ts.push_rep(&$v); quote_push!($ts; $($rest)*); };
    // `#x`
    ($ts:ident; # $v:ident $($rest:tt)*) => { $ts.push_interp(&$v); quote_push!($ts; $($rest)*); };
    // groups
    ($ts:ident; ( $($inner:tt)* ) $($rest:tt)*) => { $ts.push_group(Delim::Paren, quote!($($inner)*)); quote_push!($ts; $($rest)*); };
    ($ts:ident; [ $($inner:tt)* ] $($rest:tt)*) => { $ts.push_group(Delim::Bracket, quote!($($inner)*)); quote_push!($ts; $($rest)*); };
    ($ts:ident; { $($inner:tt)* } $($rest:tt)*) => { $ts.push_group(Delim::Brace, quote!($($inner)*)); quote_push!($ts; $($rest)*); };
    // any other token: as written
    ($ts:ident; $t:tt $($rest:tt)*) => { $ts.push_word(stringify!($t)); quote_push!($ts; $($rest)*); };
}
// The parameter NAMES of a real hook function, in the order of its REAL signature (src/macro_hooks.rs, extracted):
// `hook_params!{ spec_name RolesType; <the extracted fn item> }` defines
// `spec fn spec_name(r: RolesType) -> Seq<Seq<Tok>>` = the sequence `r.<param 0>, r.<param 1>, ..`, where RolesType is
// a hand-written record with one field per parameter name. So the position table of the generated call is read
// off the real signature and not retyped: reordering the hook's parameters moves the table with it, renaming
// one no longer compiles (undecided).
macro_rules! hook_params {
    ($name:ident $roles:ident; $($item:tt)*) => { hook_params!(@find $name $roles; $($item)*); };
    (@find $name:ident $roles:ident; fn $f:ident $($rest:tt)*) => { hook_params!(@scan $name $roles $f; $($rest)*); };
    (@find $name:ident $roles:ident; $skip:tt $($rest:tt)*) => { hook_params!(@find $name $roles; $($rest)*); };
    (@scan $name:ident $roles:ident $f:ident; ( $($p:ident : $t:ty),* $(,)? ) $($rest:tt)*) => { hook_params!(@body $name $roles $f [ $($p)* ]; $($rest)*); };
    (@scan $name:ident $roles:ident $f:ident; $skip:tt $($rest:tt)*) => { hook_params!(@scan $name $roles $f; $($rest)*); };
    // the hook's body is not used, except that the vacuity canary `assert(false);` which `check --canary` injects at
    // its start is carried over into the generated proof fn (so that the canary run reaches it)
    // (its own tokens are passed through, so that the failure is reported at the injected statement)
    (@body $name:ident $roles:ident $f:ident [ $($p:ident)* ]; { $a:ident $arg:tt ; $($b:tt)* }) => { hook_params!(@chk $name $roles $f [ $($p)* ] $a $arg; $arg); };
    (@body $name:ident $roles:ident $f:ident [ $($p:ident)* ]; { $($b:tt)* }) => { hook_params!(@emit $name $roles $f [ $($p)* ] [ ]); };
    (@body $name:ident $roles:ident $f:ident [ $($p:ident)* ]; $skip:tt $($rest:tt)*) => { hook_params!(@body $name $roles $f [ $($p)* ]; $($rest)*); };
    (@chk $name:ident $roles:ident $f:ident [ $($p:ident)* ] $a:ident $arg:tt; ( false )) => { hook_params!(@emit $name $roles $f [ $($p)* ] [ $a $arg ; ]); };
    (@chk $name:ident $roles:ident $f:ident [ $($p:ident)* ] $a:ident $arg:tt; $other:tt) => { hook_params!(@emit $name $roles $f [ $($p)* ] [ ]); };
    (@emit $name:ident $roles:ident $f:ident [ $($p:ident)* ] [ $($canary:tt)* ]) => {
        verus! {
            pub open spec fn $name(r: $roles) -> Seq<Seq<Tok>> { Seq::<Seq<Tok>>::empty() $( .push(r.$p) )* }
            // (named after the hook: the table has exactly one entry per parameter of the real signature)
            pub proof fn $f(r: $roles)
                ensures $name(r).len() == Seq::<int>::empty() $( .push({ let $p = 0int; $p }) )* .len()
            { $($canary)* }
        }
    };
}
