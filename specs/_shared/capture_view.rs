// Shared by emit_capture and core_value_conv (C19): the ghost view of a captured value.
//
// `emit_core::value::Value` wraps a `value_bag::ValueBag` (dependency). What a reader can observe of a value is decided
// by WHICH value-bag constructor made it from WHICH source datum; that pair is the view. The meaning of each constructor
// (what it displays as, whether it downcasts, what a serializer sees) is value-bag's / sval's / serde's contract and is
// TRUSTED here: every contract phrased with this view is a call-shape contract (which constructor, which argument,
// result handed on unchanged). Nothing in this file has a body that is claimed verified.

// a source value of any type, type-erased (injective per type is NOT assumed; equality of data is all that is used)
#[verifier::external_body]
pub struct Datum {}
pub uninterp spec fn datum<T: ?Sized>(x: &T) -> Datum;

pub enum Captured {
    // ---- `capture_*`: the source's concrete type is kept (`T: 'static`). value-bag stores a primitive (integers,
    // floats, bool, char, &'static str) as that primitive, so that it can be pulled back as the same typed value, and
    // any other type can be downcast to; otherwise the value is observed through the named trait
    TypedDisplay(Datum),      // ValueBag::capture_display(x)
    TypedDebug(Datum),        // ValueBag::capture_debug(x)
    TypedSval(Datum),         // ValueBag::capture_sval2(x):  full structure through sval (and serde, bridged)
    TypedSerde(Datum),        // ValueBag::capture_serde1(x): full structure through serde (and sval, bridged)
    TypedError(Datum),        // ValueBag::capture_error(x):  the error itself, source chain reachable (`to_borrowed_error`)
    // ---- `from_*`: anonymous, observed through the named trait ONLY (no typed pull, no downcast)
    DisplayOnly(Datum),       // ValueBag::from_display(x)
    DebugOnly(Datum),         // ValueBag::from_debug(x)
    SvalOnly(Datum),          // ValueBag::from_sval2(x)
    SerdeOnly(Datum),         // ValueBag::from_serde1(x)
    DynDisplay(Datum),        // ValueBag::from_dyn_display(x)
    DynDebug(Datum),          // ValueBag::from_dyn_debug(x)
    DynError(Datum),          // ValueBag::from_dyn_error(x): source chain reachable
    // ---- `From<&T> for ValueBag` (what emit's macro-generated `ToValue for $t` use): a typed primitive
    Str(Seq<char>),           // a borrowed string
    Prim(Datum),              // an integer / f64 / bool, as that type
    // ---- `ValueBag::empty()`
    Null,
    // ---- an owned / shared buffered copy read back (`OwnedValueBag::by_ref`) of a value with this view: value-bag
    // promises the same primitive / string / structure / text, not the same downcast
    Buffered(Box<Captured>),
}

// marker mirrors of the traits the capture bounds name (their methods are irrelevant to call-shape contracts)
pub mod fmt {
    pub trait Display {}
    pub trait Debug {}
}
pub mod sval {
    pub trait Value {}
}
pub mod serde {
    pub trait Serialize {}
}
// core::any::Any (`T: Any` = `T: 'static`)
pub trait Any: 'static {}
impl<T: 'static + ?Sized> Any for T {}
