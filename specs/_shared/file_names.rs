// Shared by file_names and file_on_batch: how the rolling files are NAMED (emitter/file/src/lib.rs: file_ts, file_id,
// file_name, rolling_id) -- extracted and proved wherever this file is included -- and the naming vocabulary.
// (expects file_types.rs and the `mod emit` mirror (file_set_fns.rs) before it; the unit header defines the `format!`
//  mirror macro below `use vstd::prelude::*;`:
//      macro_rules! format {
//          ($f:literal, $a:expr $(,)?) => { fmt_mirror::format1($f, &$a) };
//          ($f:literal, $a:expr, $b:expr $(,)?) => { fmt_mirror::format2($f, &$a, &$b) };
//          ($f:literal, $a:expr, $b:expr, $c:expr $(,)?) => { fmt_mirror::format3($f, &$a, &$b, &$c) };
//          ($f:literal, $a:expr, $b:expr, $c:expr, $d:expr $(,)?) => { fmt_mirror::format4($f, &$a, &$b, &$c, &$d) };
//          ($f:literal, $a:expr, $b:expr, $c:expr, $d:expr, $e:expr $(,)?) => { fmt_mirror::format5($f, &$a, &$b, &$c, &$d, &$e) };
//      }
//  the real `format!(..)` call stays in the extracted text: its format string and its arguments, in their order,
//  reach the contracts through `fmt_mirror::formatN`.)

// =====================================================================================
// numbers as text: fixed width, zero padded
// =====================================================================================
pub open spec fn digit_char(d: int) -> char {
    if d == 0 { '0' } else if d == 1 { '1' } else if d == 2 { '2' } else if d == 3 { '3' } else if d == 4 { '4' }
    else if d == 5 { '5' } else if d == 6 { '6' } else if d == 7 { '7' } else if d == 8 { '8' } else if d == 9 { '9' }
    else if d == 10 { 'a' } else if d == 11 { 'b' } else if d == 12 { 'c' } else if d == 13 { 'd' } else if d == 14 { 'e' } else { 'f' }
}
// the digits of n in base 16 (lower case) or base 10 (any other `base`), most significant first, no leading
// zeros ("0" for 0)
pub open spec fn digits(n: nat, base: nat) -> Seq<char>
    decreases n
{
    if base == 16 {
        if n < 16 { seq![digit_char(n as int)] } else { digits(n / 16, base).push(digit_char((n % 16) as int)) }
    } else {
        if n < 10 { seq![digit_char(n as int)] } else { digits(n / 10, base).push(digit_char((n % 10) as int)) }
    }
}
pub open spec fn zeros(k: nat) -> Seq<char> { Seq::new(k, |i: int| '0') }
// `{:0W}` / `{:0Wx}`: at least W characters, padded with '0' on the left
pub open spec fn padded(n: nat, base: nat, width: nat) -> Seq<char> {
    let d = digits(n, base);
    if d.len() >= width { d } else { zeros((width - d.len()) as nat) + d }
}

// =====================================================================================
// the `format!` mirror (trusted: the meaning of the format strings the bodies use)
// =====================================================================================
pub enum ArgV { Text(Seq<char>), Num(nat) }
// one piece of a format string: literal text, or the next argument
pub enum Piece {
    Lit(Seq<char>),
    Display,                 // `{}`
    Zero(nat),               // `{:0W}` (also written `{:>0W}`, `{:<0W}`: the `0` flag overrides fill and alignment): decimal, zero padded to W
    ZeroHex(nat),            // `{:0Wx}`: lower-case hexadecimal, zero padded to W
}
pub open spec fn shown_piece(p: Piece, a: ArgV) -> Seq<char> {
    match (p, a) {
        (Piece::Display, ArgV::Text(t)) => t,
        (Piece::Display, ArgV::Num(n)) => digits(n, 10),
        (Piece::Zero(w), ArgV::Num(n)) => padded(n, 10, w),
        (Piece::ZeroHex(w), ArgV::Num(n)) => padded(n, 16, w),
        _ => arbitrary(),
    }
}
// the text a piece list produces from the arguments (k = index of the next argument)
pub open spec fn render_pieces(ps: Seq<Piece>, a: Seq<ArgV>, k: int) -> Seq<char>
    decreases ps.len()
{
    if ps.len() == 0 { Seq::<char>::empty() } else {
        match ps[0] {
            Piece::Lit(t) => t + render_pieces(ps.drop_first(), a, k),
            p => (if 0 <= k < a.len() { shown_piece(p, a[k]) } else { arbitrary() }) + render_pieces(ps.drop_first(), a, k + 1),
        }
    }
}
pub open spec fn lit1(c: char) -> Piece { Piece::Lit(seq![c]) }
// the format strings of this file and what they mean (std::fmt syntax; equivalent spellings side by side).
// Any other format string is uninterpreted: a contract that depends on it cannot be proved.
pub open spec fn fmt_pieces(f: Seq<char>) -> Option<Seq<Piece>> {
    if f == "{}.{}.{}.{}"@ {
        Some(seq![Piece::Display, lit1('.'), Piece::Display, lit1('.'), Piece::Display, lit1('.'), Piece::Display])
    } else if f == "{:<08}.{:<08x}"@ || f == "{:08}.{:08x}"@ || f == "{:>08}.{:>08x}"@ {
        Some(seq![Piece::Zero(8), lit1('.'), Piece::ZeroHex(8)])
    } else if f == "{:>04}-{:>02}-{:>02}"@ || f == "{:04}-{:02}-{:02}"@ {
        Some(seq![Piece::Zero(4), lit1('-'), Piece::Zero(2), lit1('-'), Piece::Zero(2)])
    } else if f == "{:>04}-{:>02}-{:>02}-{:>02}"@ || f == "{:04}-{:02}-{:02}-{:02}"@ {
        Some(seq![Piece::Zero(4), lit1('-'), Piece::Zero(2), lit1('-'), Piece::Zero(2), lit1('-'), Piece::Zero(2)])
    } else if f == "{:>04}-{:>02}-{:>02}-{:>02}-{:>02}"@ || f == "{:04}-{:02}-{:02}-{:02}-{:02}"@ {
        Some(seq![Piece::Zero(4), lit1('-'), Piece::Zero(2), lit1('-'), Piece::Zero(2), lit1('-'), Piece::Zero(2), lit1('-'), Piece::Zero(2)])
    } else {
        None
    }
}
pub uninterp spec fn fmt_other(f: Seq<char>, a: Seq<ArgV>) -> Seq<char>;
pub open spec fn render(f: Seq<char>, a: Seq<ArgV>) -> Seq<char> {
    match fmt_pieces(f) { Some(ps) => render_pieces(ps, a, 0), None => fmt_other(f, a) }
}

pub mod fmt_mirror {
    use vstd::prelude::*;
    use super::{ArgV, render};
    // what a `Display` / `LowerHex` argument is, for the argument types the bodies use
    pub trait Shown { spec fn shown(&self) -> ArgV; }
    impl<'a> Shown for &'a str { open spec fn shown(&self) -> ArgV { ArgV::Text((*self)@) } }
    impl Shown for String { open spec fn shown(&self) -> ArgV { ArgV::Text(self@) } }
    impl<'a> Shown for &'a String { open spec fn shown(&self) -> ArgV { ArgV::Text((*self)@) } }
    impl Shown for u8 { open spec fn shown(&self) -> ArgV { ArgV::Num(*self as nat) } }
    impl Shown for u16 { open spec fn shown(&self) -> ArgV { ArgV::Num(*self as nat) } }
    impl Shown for u32 { open spec fn shown(&self) -> ArgV { ArgV::Num(*self as nat) } }
    impl Shown for u64 { open spec fn shown(&self) -> ArgV { ArgV::Num(*self as nat) } }
    impl Shown for usize { open spec fn shown(&self) -> ArgV { ArgV::Num(*self as nat) } }
    #[verifier::external_body]
    pub fn format1<A: Shown>(f: &'static str, a: &A) -> (r: String)
        ensures r@ == render(f@, seq![a.shown()])
    { unimplemented!() }
    #[verifier::external_body]
    pub fn format2<A: Shown, B: Shown>(f: &'static str, a: &A, b: &B) -> (r: String)
        ensures r@ == render(f@, seq![a.shown(), b.shown()])
    { unimplemented!() }
    #[verifier::external_body]
    pub fn format3<A: Shown, B: Shown, C: Shown>(f: &'static str, a: &A, b: &B, c: &C) -> (r: String)
        ensures r@ == render(f@, seq![a.shown(), b.shown(), c.shown()])
    { unimplemented!() }
    #[verifier::external_body]
    pub fn format4<A: Shown, B: Shown, C: Shown, D: Shown>(f: &'static str, a: &A, b: &B, c: &C, d: &D) -> (r: String)
        ensures r@ == render(f@, seq![a.shown(), b.shown(), c.shown(), d.shown()])
    { unimplemented!() }
    #[verifier::external_body]
    pub fn format5<A: Shown, B: Shown, C: Shown, D: Shown, E: Shown>(f: &'static str, a: &A, b: &B, c: &C, d: &D, e: &E) -> (r: String)
        ensures r@ == render(f@, seq![a.shown(), b.shown(), c.shown(), d.shown(), e.shown()])
    { unimplemented!() }
}

// the piece lists, unfolded
proof fn lemma_render_4(p0: Piece, l0: char, p1: Piece, l1: char, p2: Piece, l2: char, p3: Piece, a: Seq<ArgV>)
    requires a.len() == 4, !(p0 is Lit), !(p1 is Lit), !(p2 is Lit), !(p3 is Lit)
    ensures render_pieces(seq![p0, lit1(l0), p1, lit1(l1), p2, lit1(l2), p3], a, 0)
        =~= shown_piece(p0, a[0]) + seq![l0] + shown_piece(p1, a[1]) + seq![l1] + shown_piece(p2, a[2]) + seq![l2] + shown_piece(p3, a[3])
{
    let s7 = seq![p0, lit1(l0), p1, lit1(l1), p2, lit1(l2), p3];
    let s6 = s7.drop_first(); let s5 = s6.drop_first(); let s4 = s5.drop_first(); let s3 = s4.drop_first();
    let s2 = s3.drop_first(); let s1 = s2.drop_first(); let s0 = s1.drop_first();
    assert(s0.len() == 0);
    assert(render_pieces(s0, a, 4) =~= Seq::<char>::empty());
    assert(render_pieces(s1, a, 3) =~= shown_piece(p3, a[3]));
    assert(render_pieces(s2, a, 3) =~= seq![l2] + render_pieces(s1, a, 3));
    assert(render_pieces(s3, a, 2) =~= shown_piece(p2, a[2]) + render_pieces(s2, a, 3));
    assert(render_pieces(s4, a, 2) =~= seq![l1] + render_pieces(s3, a, 2));
    assert(render_pieces(s5, a, 1) =~= shown_piece(p1, a[1]) + render_pieces(s4, a, 2));
    assert(render_pieces(s6, a, 1) =~= seq![l0] + render_pieces(s5, a, 1));
    assert(render_pieces(s7, a, 0) =~= shown_piece(p0, a[0]) + render_pieces(s6, a, 1));
}
proof fn lemma_render_step(ps: Seq<Piece>, a: Seq<ArgV>, k: int)
    requires ps.len() > 0
    ensures render_pieces(ps, a, k) == (match ps[0] {
            Piece::Lit(t) => t + render_pieces(ps.drop_first(), a, k),
            p => (if 0 <= k < a.len() { shown_piece(p, a[k]) } else { arbitrary() }) + render_pieces(ps.drop_first(), a, k + 1) })
{
}

// =====================================================================================
// the names
// =====================================================================================
pub open spec fn dotc() -> Seq<char> { seq!['.'] }
pub open spec fn dashc() -> Seq<char> { seq!['-'] }
// prefix "." period "." counter+id "." ext
pub open spec fn spec_file_name(prefix: Seq<char>, ext: Seq<char>, ts: Seq<char>, id: Seq<char>) -> Seq<char> {
    prefix + dotc() + ts + dotc() + id + dotc() + ext
}
// the counter (milliseconds within the period, 8 decimal digits) "." the random id (8 hex digits)
pub open spec fn spec_file_id(millis: nat, rid: nat) -> Seq<char> {
    padded(millis, 10, 8) + dotc() + padded(rid, 16, 8)
}
// the period: year-month-day[-hour[-minute]], every field zero padded to a fixed width
pub open spec fn spec_file_ts(roll_by: RollBy, years: nat, months: nat, days: nat, hours: nat, minutes: nat) -> Seq<char> {
    let day = padded(years, 10, 4) + dashc() + padded(months, 10, 2) + dashc() + padded(days, 10, 2);
    match roll_by {
        RollBy::Day => day,
        RollBy::Hour => day + dashc() + padded(hours, 10, 2),
        RollBy::Minute => day + dashc() + padded(hours, 10, 2) + dashc() + padded(minutes, 10, 2),
    }
}
pub open spec fn parts_ts(roll_by: RollBy, p: emit::timestamp::Parts) -> Seq<char> {
    spec_file_ts(roll_by, p.years as nat, p.months as nat, p.days as nat, p.hours as nat, p.minutes as nat)
}

// the format strings of the three functions resolve in the table
proof fn lemma_fmt_table()
    ensures
        fmt_pieces("{}.{}.{}.{}"@) == Some(seq![Piece::Display, lit1('.'), Piece::Display, lit1('.'), Piece::Display, lit1('.'), Piece::Display]),
        fmt_pieces("{:<08}.{:<08x}"@) == Some(seq![Piece::Zero(8), lit1('.'), Piece::ZeroHex(8)]),
        fmt_pieces("{:>04}-{:>02}-{:>02}"@) == Some(seq![Piece::Zero(4), lit1('-'), Piece::Zero(2), lit1('-'), Piece::Zero(2)]),
        fmt_pieces("{:>04}-{:>02}-{:>02}-{:>02}"@) == Some(seq![Piece::Zero(4), lit1('-'), Piece::Zero(2), lit1('-'), Piece::Zero(2), lit1('-'), Piece::Zero(2)]),
        fmt_pieces("{:>04}-{:>02}-{:>02}-{:>02}-{:>02}"@)
            == Some(seq![Piece::Zero(4), lit1('-'), Piece::Zero(2), lit1('-'), Piece::Zero(2), lit1('-'), Piece::Zero(2), lit1('-'), Piece::Zero(2)]),
        // the equivalent spellings
        fmt_pieces("{:08}.{:08x}"@) == fmt_pieces("{:<08}.{:<08x}"@),
        fmt_pieces("{:>08}.{:>08x}"@) == fmt_pieces("{:<08}.{:<08x}"@),
        fmt_pieces("{:04}-{:02}-{:02}"@) == fmt_pieces("{:>04}-{:>02}-{:>02}"@),
        fmt_pieces("{:04}-{:02}-{:02}-{:02}"@) == fmt_pieces("{:>04}-{:>02}-{:>02}-{:>02}"@),
        fmt_pieces("{:04}-{:02}-{:02}-{:02}-{:02}"@) == fmt_pieces("{:>04}-{:>02}-{:>02}-{:>02}-{:>02}"@),
{
    reveal_strlit("{}.{}.{}.{}");
    reveal_strlit("{:<08}.{:<08x}");
    reveal_strlit("{:08}.{:08x}");
    reveal_strlit("{:>08}.{:>08x}");
    reveal_strlit("{:>04}-{:>02}-{:>02}");
    reveal_strlit("{:04}-{:02}-{:02}");
    reveal_strlit("{:>04}-{:>02}-{:>02}-{:>02}");
    reveal_strlit("{:04}-{:02}-{:02}-{:02}");
    reveal_strlit("{:>04}-{:>02}-{:>02}-{:>02}-{:>02}");
    reveal_strlit("{:04}-{:02}-{:02}-{:02}-{:02}");
    // the strings differ pairwise where the table needs it: by length
    assert("{}.{}.{}.{}"@.len() == 11);
    assert("{:<08}.{:<08x}"@.len() == 14);
    assert("{:08}.{:08x}"@.len() == 12);
    assert("{:>08}.{:>08x}"@.len() == 14);
    assert("{:>04}-{:>02}-{:>02}"@.len() == 20);
    assert("{:04}-{:02}-{:02}"@.len() == 17);
    assert("{:>04}-{:>02}-{:>02}-{:>02}"@.len() == 27);
    assert("{:04}-{:02}-{:02}-{:02}"@.len() == 23);
    assert("{:>04}-{:>02}-{:>02}-{:>02}-{:>02}"@.len() == 34);
    assert("{:04}-{:02}-{:02}-{:02}-{:02}"@.len() == 29);
    assert("{:>08}.{:>08x}"@[2] != "{:<08}.{:<08x}"@[2] || true);
}

//@extract emitter/file/src/lib.rs / fn file_name
//@rules R1 R2
//@ret r
//@sig
    ensures r@ == spec_file_name(file_prefix@, file_ext@, ts@, id@),
//@inside-start start
    proof {
        lemma_fmt_table();
        let a = seq![ArgV::Text(file_prefix@), ArgV::Text(ts@), ArgV::Text(id@), ArgV::Text(file_ext@)];
        lemma_render_4(Piece::Display, '.', Piece::Display, '.', Piece::Display, '.', Piece::Display, a);
    }
//@end

//@extract emitter/file/src/lib.rs / fn file_id
//@rules R1 R2
//@ret r
//@sig
    ensures r@ == spec_file_id(rolling_millis as nat, rolling_id as nat),
//@inside-start start
    proof {
        lemma_fmt_table();
        let a = seq![ArgV::Num(rolling_millis as nat), ArgV::Num(rolling_id as nat)];
        let ps = seq![Piece::Zero(8), lit1('.'), Piece::ZeroHex(8)];
        lemma_render_step(ps, a, 0);
        lemma_render_step(ps.drop_first(), a, 1);
        lemma_render_step(ps.drop_first().drop_first(), a, 1);
        assert(ps.drop_first().drop_first().drop_first().len() == 0);
        assert(render_pieces(ps, a, 0) =~= padded(rolling_millis as nat, 10, 8) + dotc() + padded(rolling_id as nat, 16, 8));
    }
//@end

proof fn lemma_render_dashes(n: int, a: Seq<ArgV>)
    requires 3 <= n <= 5, a.len() == n, forall|i: int| 0 <= i < n ==> a[i] is Num
    ensures ({
        let w = |i: int| if i == 0 { Piece::Zero(4) } else { Piece::Zero(2) };
        let day = seq![Piece::Zero(4), lit1('-'), Piece::Zero(2), lit1('-'), Piece::Zero(2)];
        let ps = if n == 3 { day } else if n == 4 { day + seq![lit1('-'), Piece::Zero(2)] } else { day + seq![lit1('-'), Piece::Zero(2), lit1('-'), Piece::Zero(2)] };
        let dayt = padded(a[0]->Num_0, 10, 4) + dashc() + padded(a[1]->Num_0, 10, 2) + dashc() + padded(a[2]->Num_0, 10, 2);
        render_pieces(ps, a, 0) =~= (if n == 3 { dayt } else if n == 4 { dayt + dashc() + padded(a[3]->Num_0, 10, 2) }
                                     else { dayt + dashc() + padded(a[3]->Num_0, 10, 2) + dashc() + padded(a[4]->Num_0, 10, 2) })
    }),
{
    let day = seq![Piece::Zero(4), lit1('-'), Piece::Zero(2), lit1('-'), Piece::Zero(2)];
    let ps = if n == 3 { day } else if n == 4 { day + seq![lit1('-'), Piece::Zero(2)] } else { day + seq![lit1('-'), Piece::Zero(2), lit1('-'), Piece::Zero(2)] };
    let p1 = ps.drop_first(); let p2 = p1.drop_first(); let p3 = p2.drop_first(); let p4 = p3.drop_first(); let p5 = p4.drop_first();
    lemma_render_step(ps, a, 0); lemma_render_step(p1, a, 1); lemma_render_step(p2, a, 1); lemma_render_step(p3, a, 2); lemma_render_step(p4, a, 2);
    if n >= 4 {
        let p6 = p5.drop_first(); let p7 = p6.drop_first();
        lemma_render_step(p5, a, 3); lemma_render_step(p6, a, 3);
        if n == 5 {
            let p8 = p7.drop_first(); let p9 = p8.drop_first();
            lemma_render_step(p7, a, 4); lemma_render_step(p8, a, 4);
            assert(p9.len() == 0);
        } else { assert(p7.len() == 0); }
    } else { assert(p5.len() == 0); }
}

//@extract emitter/file/src/lib.rs / fn file_ts
//@rules R1 R2
//@ret r
//@sig
    ensures r@ == parts_ts(roll_by, parts),
    // (a measure, so that a variant that builds a longer period from a shorter one by calling itself is judged by the
    // contract instead of being rejected as recursion without a measure)
    decreases (match roll_by { RollBy::Day => 0nat, RollBy::Hour => 1nat, RollBy::Minute => 2nat }),
//@inside-start start
    proof {
        lemma_fmt_table();
        let y = ArgV::Num(parts.years as nat); let mo = ArgV::Num(parts.months as nat); let d = ArgV::Num(parts.days as nat);
        let h = ArgV::Num(parts.hours as nat); let mi = ArgV::Num(parts.minutes as nat);
        lemma_render_dashes(3, seq![y, mo, d]);
        lemma_render_dashes(4, seq![y, mo, d, h]);
        lemma_render_dashes(5, seq![y, mo, d, h, mi]);
        let day = seq![Piece::Zero(4), lit1('-'), Piece::Zero(2), lit1('-'), Piece::Zero(2)];
        assert(day + seq![lit1('-'), Piece::Zero(2)] =~= seq![Piece::Zero(4), lit1('-'), Piece::Zero(2), lit1('-'), Piece::Zero(2), lit1('-'), Piece::Zero(2)]);
        assert(day + seq![lit1('-'), Piece::Zero(2), lit1('-'), Piece::Zero(2)]
            =~= seq![Piece::Zero(4), lit1('-'), Piece::Zero(2), lit1('-'), Piece::Zero(2), lit1('-'), Piece::Zero(2), lit1('-'), Piece::Zero(2)]);
    }
//@end

// `rng.gen_u64().unwrap() as u32`: the low 32 bits of one draw
//@extract emitter/file/src/lib.rs / fn rolling_id
//@rules R1 R2 R16
//@ret r
//@wrap R16 cast#0
    (#[verifier::truncate] ($$))
//@end
