// ---------------------------------------------------------------------------------
// specs/_shared/otlp_evt_view.rs - ghost view of an emit event as the OTLP signal encoders
// see it when they DECIDE whether the event is theirs (property C14). Spec-only; included
// inside `verus! { .. }` by otlp_route.vx (where it is opaque: routing is proved for arbitrary
// accept predicates over it) and by otlp_encoders.vx (where the real encoders' decisions are
// proved to be the predicates `is_span_sample` / `may_be_metric_sample` / `true` over it).
// ---------------------------------------------------------------------------------

/// `evt.props().pull::<Kind>(KEY_EVT_KIND)`; a missing, unparsable or unknown kind is `None`
pub ghost enum KindV { Span, Metric }
/// `evt.extent()`: a point in time or a range; `Extent::range(ts..ts)` (zero length) and inverted
/// ranges are ranges too (core/src/extent.rs:41)
pub ghost enum ExtentV { Point, Range }

pub ghost struct EvtView {
    /// identity of the event (everything the decision does not look at)
    pub id: int,
    pub kind: Option<KindV>,
    pub extent: Option<ExtentV>,
    /// `evt.props().get(KEY_METRIC_VALUE)` is present
    pub has_metric_value: bool,
}

/// C14: "spans (span kind with a range extent)"
pub open spec fn is_span_sample(e: EvtView) -> bool {
    e.kind == Some(KindV::Span) && e.extent == Some(ExtentV::Range)
}
/// C14: necessary for "metric samples (metric kind with a numeric or numeric-sequence value)";
/// whether the value is numeric is decided inside an sval visitor and is not modelled
pub open spec fn may_be_metric_sample(e: EvtView) -> bool {
    e.kind == Some(KindV::Metric) && e.has_metric_value
}
