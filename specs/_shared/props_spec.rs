// Shared by core_props_get and core_props_enum (C02): the abstract view of a property
// collection is the sequence `kvs()` it enumerates; `first(kvs, k)` is lookup by enumeration.
// The `kvs` definition of every collection type lives HERE, once, as an impl of the
// spec-only trait `PropsView`; core_props_enum proves that `for_each` produces exactly this
// sequence, core_props_get proves that `get` / `is_unique` agree with it.

// ---------------------------------------------------------------- keys and values (abstract)
//
// `emit_core::str::Str` and `emit_core::value::Value` are opaque external types. The view of a
// key is the byte string `Str::get()` returns, the view of a value is an uninterpreted sort.

pub type Key = Seq<u8>;

#[verifier::external_body]
pub struct Val {}

pub type Kv = (Key, Val);

#[verifier::external_body]
pub struct Str<'k> { _p: core::marker::PhantomData<&'k str> }

#[verifier::external_body]
pub struct Value<'v> { _p: core::marker::PhantomData<&'v str> }

pub uninterp spec fn str_key(s: Str<'_>) -> Key;
pub uninterp spec fn value_val(v: Value<'_>) -> Val;

impl<'k> View for Str<'k> { type V = Key; open spec fn view(&self) -> Key { str_key(*self) } }
impl<'v> View for Value<'v> { type V = Val; open spec fn view(&self) -> Val { value_val(*self) } }

pub open spec fn opt_val(o: Option<Value<'_>>) -> Option<Val> {
    match o { Some(v) => Some(v@), None => None }
}

// assumed: core/src/str.rs:136 and core/src/value.rs:144 re-borrow without changing the content
impl<'k> Str<'k> {
    #[verifier::external_body]
    pub const fn by_ref<'b>(&'b self) -> (r: Str<'b>) ensures r@ == self@ { unimplemented!() }
}
impl<'v> Value<'v> {
    #[verifier::external_body]
    pub fn by_ref<'b>(&'b self) -> (r: Value<'b>) ensures r@ == self@ { unimplemented!() }
}

// assumed: core/src/str.rs `Str::get` returns the text this string holds (PROVED on the real impl in core_str_cmp:
// `r@ == self.text()`, with `bytes() == encode_utf8(text())`; the view of the mirror is `bytes()`). A `str` IS its
// content (vstd's `str` is not extensional by itself): every `&str` with these bytes is the returned one - this is
// what lets a `match key.get() { CONST => .. }` be decided.
impl<'k> Str<'k> {
    #[verifier::external_body]
    pub const fn get(&self) -> (r: &str)
        ensures
            r.spec_bytes() == self@,
            forall|s: &str| #[trigger] s.spec_bytes() == self@ ==> s == r,
    { unimplemented!() }
}

// The order on keys is the order of `str`: lexicographic on bytes.
pub open spec fn lex_lt(a: Seq<u8>, b: Seq<u8>) -> bool
    decreases a.len()
{
    if b.len() == 0 { false }
    else if a.len() == 0 { true }
    else if a[0] != b[0] { a[0] < b[0] }
    else { lex_lt(a.drop_first(), b.drop_first()) }
}

pub open spec fn lex_cmp(a: Seq<u8>, b: Seq<u8>) -> core::cmp::Ordering {
    if a == b { core::cmp::Ordering::Equal } else if lex_lt(a, b) { core::cmp::Ordering::Less } else { core::cmp::Ordering::Greater }
}

pub proof fn lemma_lex_irrefl(a: Seq<u8>)
    ensures !lex_lt(a, a)
    decreases a.len()
{
    if a.len() > 0 { lemma_lex_irrefl(a.drop_first()); }
}

pub proof fn lemma_lex_trans(a: Seq<u8>, b: Seq<u8>, c: Seq<u8>)
    requires lex_lt(a, b), lex_lt(b, c)
    ensures lex_lt(a, c)
    decreases a.len()
{
    if a.len() > 0 && b.len() > 0 && c.len() > 0 && a[0] == b[0] && b[0] == c[0] {
        lemma_lex_trans(a.drop_first(), b.drop_first(), c.drop_first());
    }
}

// the order is total: two different keys are ordered one way or the other
pub proof fn lemma_lex_total(a: Seq<u8>, b: Seq<u8>)
    ensures a == b || lex_lt(a, b) || lex_lt(b, a)
    decreases a.len()
{
    if a.len() > 0 && b.len() > 0 && a[0] == b[0] {
        lemma_lex_total(a.drop_first(), b.drop_first());
        if a.drop_first() == b.drop_first() {
            assert(a =~= seq![a[0]] + a.drop_first());
            assert(b =~= seq![b[0]] + b.drop_first());
        }
    } else if a.len() == 0 && b.len() == 0 {
        assert(a =~= b);
    }
}

// assumed specifications of core/src/str.rs:178-214 (`Str == Str` is `get() == get()`,
// `Str` compared with `Str` is `str::cmp`, i.e. lexicographic on the bytes)
impl<'a, 'b> PartialEq<Str<'b>> for Str<'a> {
    #[verifier::external_body]
    fn eq(&self, other: &Str<'b>) -> bool { unimplemented!() }
}
impl<'a, 'b> vstd::std_specs::cmp::PartialEqSpecImpl<Str<'b>> for Str<'a> {
    open spec fn obeys_eq_spec() -> bool { true }
    open spec fn eq_spec(&self, other: &Str<'b>) -> bool { self@ == other@ }
}
impl<'a, 'b> PartialOrd<Str<'b>> for Str<'a> {
    #[verifier::external_body]
    fn partial_cmp(&self, other: &Str<'b>) -> Option<core::cmp::Ordering> { unimplemented!() }
}
impl<'a, 'b> vstd::std_specs::cmp::PartialOrdSpecImpl<Str<'b>> for Str<'a> {
    open spec fn obeys_partial_cmp_spec() -> bool { true }
    open spec fn partial_cmp_spec(&self, other: &Str<'b>) -> Option<core::cmp::Ordering> { Some(lex_cmp(self@, other@)) }
}

// ---------------------------------------------------------------- ToStr / ToValue (real traits + view)

//@extract core/src/str.rs / trait ToStr
//@rules R1
//@members
    // the key this value converts to
    spec fn key_view(&self) -> Key;
//@fn to_str
//@ret r
//@sig
        ensures r@ == self.key_view()
//@end

//@extract core/src/str.rs / impl ToStr for &'a T
//@rules R1
//@members
    open spec fn key_view(&self) -> Key { (**self).key_view() }
//@end

//@extract core/src/str.rs / impl ToStr for Str<'k>
//@rules R1
//@members
    open spec fn key_view(&self) -> Key { self@ }
//@end

//@extract core/src/value.rs / trait ToValue
//@rules R1
//@members
    // the value this converts to
    spec fn val_view(&self) -> Val;
//@fn to_value
//@ret r
//@sig
        ensures r@ == self.val_view()
//@end

//@extract core/src/value.rs / impl ToValue for &'a T
//@rules R1
//@members
    open spec fn val_view(&self) -> Val { (**self).val_view() }
//@end

// ---------------------------------------------------------------- lookup by enumeration

pub open spec fn first(s: Seq<Kv>, k: Key) -> Option<Val>
    decreases s.len()
{
    if s.len() == 0 { None } else if s[0].0 == k { Some(s[0].1) } else { first(s.drop_first(), k) }
}

pub open spec fn no_dup_keys(s: Seq<Kv>) -> bool {
    forall|i: int, j: int| 0 <= i < j < s.len() ==> s[i].0 != s[j].0
}

pub open spec fn or_first(a: Option<Val>, b: Option<Val>) -> Option<Val> {
    if a is Some { a } else { b }
}

pub proof fn lemma_first_concat(a: Seq<Kv>, b: Seq<Kv>, k: Key)
    ensures first(a + b, k) == or_first(first(a, k), first(b, k))
    decreases a.len()
{
    if a.len() == 0 {
        assert(a + b =~= b);
    } else {
        assert((a + b).drop_first() =~= a.drop_first() + b);
        lemma_first_concat(a.drop_first(), b, k);
    }
}

// `first` is None exactly when no entry has the key; otherwise it is the entry with the least index
pub proof fn lemma_first_none(s: Seq<Kv>, k: Key)
    ensures first(s, k) is None <==> (forall|i: int| 0 <= i < s.len() ==> s[i].0 != k)
    decreases s.len()
{
    if s.len() > 0 {
        lemma_first_none(s.drop_first(), k);
        if s[0].0 != k {
            assert forall|i: int| 0 <= i < s.len() && first(s.drop_first(), k) is None implies s[i].0 != k by {
                if i > 0 { assert(s.drop_first()[i - 1] == s[i]); }
            }
            if first(s.drop_first(), k) is Some {
                let j = choose|j: int| 0 <= j < s.drop_first().len() && s.drop_first()[j].0 == k;
                assert(s[j + 1].0 == k);
            }
        }
    }
}

// ---------------------------------------------------------------- carrier types (real text)

//@extract core/src/empty.rs / struct Empty
//@rules R1 R2
//@end

//@extract core/src/and.rs / struct And
//@rules R1 R2
//@end

//@extract core/src/and.rs / impl And<T, U>
//@rules R1
//@keep new left right
//@fn new
//@ret r
//@sig
    ensures r.left == left, r.right == right,
//@fn left
//@ret r
//@sig
    ensures r == &self.left,
//@fn right
//@ret r
//@sig
    ensures r == &self.right,
//@end

//@extract core/src/props.rs / struct AsMap
//@rules R1 R2
//@end

//@extract core/src/props.rs / mod alloc_support / struct Dedup
//@rules R1 R2
//@end

//@extract src/macro_hooks.rs / struct __PrivateMacroProps
//@rules R1 R2
//@end

// ---------------------------------------------------------------- the enumeration sequences

pub trait PropsView {
    spec fn kvs(&self) -> Seq<Kv>;
}

// borrowed / boxed / shared / map view: the inner collection's sequence
impl<'a, P: PropsView + ?Sized> PropsView for &'a P {
    open spec fn kvs(&self) -> Seq<Kv> { (**self).kvs() }
}
impl<P: PropsView + ?Sized> PropsView for alloc::boxed::Box<P> {
    open spec fn kvs(&self) -> Seq<Kv> { (**self).kvs() }
}
impl<P: PropsView + ?Sized> PropsView for alloc::sync::Arc<P> {
    open spec fn kvs(&self) -> Seq<Kv> { (**self).kvs() }
}
impl<P: PropsView + ?Sized> PropsView for AsMap<P> {
    open spec fn kvs(&self) -> Seq<Kv> { self.0.kvs() }
}

// optional: the inner sequence, or nothing
impl<P: PropsView> PropsView for Option<P> {
    open spec fn kvs(&self) -> Seq<Kv> { match self { Some(p) => p.kvs(), None => Seq::empty() } }
}

impl PropsView for Empty {
    open spec fn kvs(&self) -> Seq<Kv> { Seq::empty() }
}

// a single pair
impl<K: ToStr, V: ToValue> PropsView for (K, V) {
    open spec fn kvs(&self) -> Seq<Kv> { seq![(self.0.key_view(), self.1.val_view())] }
}

// concatenation: left, then right
impl<A: PropsView, B: PropsView> PropsView for And<A, B> {
    open spec fn kvs(&self) -> Seq<Kv> { self.left.kvs() + self.right.kvs() }
}

// slices: the children's sequences in index order
pub open spec fn flat_kvs<P: PropsView>(s: Seq<P>) -> Seq<Kv>
    decreases s.len()
{
    if s.len() == 0 { Seq::empty() } else { flat_kvs(s.drop_last()) + s.last().kvs() }
}
impl<P: PropsView> PropsView for [P] {
    open spec fn kvs(&self) -> Seq<Kv> { flat_kvs(self@) }
}

// macro-built collections: the entries whose value is `Some`, in array order
pub type Entry = (Key, Option<Val>);

pub open spec fn some_kvs(e: Seq<Entry>) -> Seq<Kv>
    decreases e.len()
{
    if e.len() == 0 { Seq::empty() }
    else { some_kvs(e.drop_last()) + (if e.last().1 is Some { seq![(e.last().0, e.last().1->0)] } else { Seq::<Kv>::empty() }) }
}

pub open spec fn entries_view(a: Seq<(Str<'_>, Option<Value<'_>>)>) -> Seq<Entry> {
    Seq::new(a.len(), |i: int| (a[i].0@, opt_val(a[i].1)))
}

impl<'a, const N: usize> PropsView for __PrivateMacroProps<'a, N> {
    open spec fn kvs(&self) -> Seq<Kv> { some_kvs(entries_view(self.0@)) }
}

// de-duplication: a sequence that yields every key of the source once, with the source's first value for it.
// WHICH one `Dedup<P>` enumerates is a function of the source's sequence and of the source's answer to
// `is_unique()` (`dedup_seq`, below: the source's own order if it claims uniqueness, ascending key order otherwise)
pub open spec fn is_dedup_of(d: Seq<Kv>, s: Seq<Kv>) -> bool {
    no_dup_keys(d) && (forall|k: Key| first(d, k) == first(s, k))
}
impl<P: PropsView + ?Sized> PropsView for Dedup<P> {
    open spec fn kvs(&self) -> Seq<Kv> { dedup_seq(self.0.kvs(), claims_unique(&self.0)) }
}

// ---------------------------------------------------------------- lemmas about the sequences

pub open spec fn entry_kvs(x: Entry) -> Seq<Kv> {
    if x.1 is Some { seq![(x.0, x.1->0)] } else { Seq::<Kv>::empty() }
}

// one more entry of the array contributes itself iff its value is `Some`
pub proof fn lemma_some_kvs_step(e: Seq<Entry>, i: int)
    requires 0 <= i < e.len()
    ensures some_kvs(e.take(i + 1)) == some_kvs(e.take(i)) + entry_kvs(e[i])
{
    assert(e.take(i + 1).drop_last() =~= e.take(i));
    assert(e.take(i + 1).last() == e[i]);
}

pub proof fn lemma_some_kvs_concat(a: Seq<Entry>, b: Seq<Entry>)
    ensures some_kvs(a + b) == some_kvs(a) + some_kvs(b)
    decreases b.len()
{
    if b.len() == 0 {
        assert(a + b =~= a);
        assert(some_kvs(a) + some_kvs(b) =~= some_kvs(a));
    } else {
        assert((a + b).drop_last() =~= a + b.drop_last());
        assert((a + b).last() == b.last());
        lemma_some_kvs_concat(a, b.drop_last());
        assert((some_kvs(a) + some_kvs(b.drop_last())) + entry_kvs(b.last()) =~= some_kvs(a) + (some_kvs(b.drop_last()) + entry_kvs(b.last())));
    }
}

// a hit at entry i with no earlier hit is the first value of the whole enumeration
pub proof fn lemma_some_kvs_hit(e: Seq<Entry>, i: int, k: Key)
    requires 0 <= i < e.len(), first(some_kvs(e.take(i)), k) is None, e[i].0 == k, e[i].1 is Some
    ensures first(some_kvs(e), k) == e[i].1
{
    lemma_some_kvs_step(e, i);
    lemma_first_concat(some_kvs(e.take(i)), entry_kvs(e[i]), k);
    assert(first(entry_kvs(e[i]), k) == e[i].1) by { reveal_with_fuel(first, 2); }
    assert(e =~= e.take(i + 1) + e.skip(i + 1));
    lemma_some_kvs_concat(e.take(i + 1), e.skip(i + 1));
    lemma_first_concat(some_kvs(e.take(i + 1)), some_kvs(e.skip(i + 1)), k);
}

// a miss at entry i keeps "no hit so far"
pub proof fn lemma_some_kvs_miss(e: Seq<Entry>, i: int, k: Key)
    requires 0 <= i < e.len(), first(some_kvs(e.take(i)), k) is None, e[i].0 != k || e[i].1 is None
    ensures first(some_kvs(e.take(i + 1)), k) is None
{
    lemma_some_kvs_step(e, i);
    lemma_first_concat(some_kvs(e.take(i)), entry_kvs(e[i]), k);
    assert(first(entry_kvs(e[i]), k) is None) by { reveal_with_fuel(first, 2); }
}

// keys in strictly ascending order are pairwise distinct, hence so are the enumerated ones
pub open spec fn ascending(e: Seq<Entry>) -> bool {
    forall|j: int| 1 <= j < e.len() ==> lex_lt(#[trigger] e[j - 1].0, e[j].0)
}

pub proof fn lemma_ascending_pairs(e: Seq<Entry>, i: int, j: int)
    requires ascending(e), 0 <= i < j < e.len()
    ensures lex_lt(e[i].0, e[j].0)
    decreases j - i
{
    assert(lex_lt(e[j - 1].0, e[j].0));
    if j > i + 1 {
        lemma_ascending_pairs(e, i, j - 1);
        lemma_lex_trans(e[i].0, e[j - 1].0, e[j].0);
    }
}

pub open spec fn key_from(s: Seq<Kv>, x: int, e: Seq<Entry>) -> bool {
    exists|j: int| 0 <= j < e.len() && e[j].0 == s[x].0
}

pub proof fn lemma_ascending_no_dup(e: Seq<Entry>)
    requires ascending(e)
    ensures
        no_dup_keys(some_kvs(e)),
        forall|x: int| 0 <= x < some_kvs(e).len() ==> key_from(some_kvs(e), x, e),
    decreases e.len()
{
    if e.len() > 0 {
        let e1 = e.drop_last();
        let s1 = some_kvs(e1);
        let s = some_kvs(e);
        assert(ascending(e1)) by {
            assert forall|j: int| 1 <= j < e1.len() implies lex_lt(#[trigger] e1[j - 1].0, e1[j].0) by {
                assert(lex_lt(e[j - 1].0, e[j].0));
            }
        }
        lemma_ascending_no_dup(e1);
        assert forall|x: int| 0 <= x < s.len() implies key_from(s, x, e) by {
            if x < s1.len() {
                assert(key_from(s1, x, e1));
                let j = choose|j: int| 0 <= j < e1.len() && e1[j].0 == s1[x].0;
                assert(e[j].0 == s[x].0);
            } else {
                assert(e[e.len() - 1].0 == s[x].0);
            }
        }
        assert forall|i: int, j: int| 0 <= i < j < s.len() implies s[i].0 != s[j].0 by {
            if j >= s1.len() {
                // s[j] is the last entry; s[i] comes from an earlier entry, which is smaller
                assert(key_from(s1, i, e1));
                let jj = choose|jj: int| 0 <= jj < e1.len() && e1[jj].0 == s1[i].0;
                lemma_ascending_pairs(e, jj, e.len() - 1);
                lemma_lex_irrefl(e.last().0);
            }
        }
    }
}

// Shared (C02, C13): the sequence `Dedup<P>` enumerates, as a FUNCTION of the source's sequence and of the answer
// the source gives to `is_unique()`:
//   - the source claims uniqueness (and is indeed duplicate-free): the source's own sequence, in its own order
//     (core/src/props.rs:279-281, the short-cut);
//   - otherwise: every key once, with its FIRST value, in ascending key order (`str` order = lexicographic on
//     bytes): what a `BTreeMap` filled with `entry(k).or_insert(v)` yields (core/src/props.rs:283-294).

// strictly ascending keys
pub open spec fn asc_keys(d: Seq<Kv>) -> bool {
    forall|i: int, j: int| 0 <= i < j < d.len() ==> lex_lt(#[trigger] d[i].0, #[trigger] d[j].0)
}

// insert-if-absent into an ascending sequence
pub open spec fn ins_absent(d: Seq<Kv>, kv: Kv) -> Seq<Kv>
    decreases d.len()
{
    if d.len() == 0 { seq![kv] }
    else if d[0].0 == kv.0 { d }
    else if lex_lt(kv.0, d[0].0) { seq![kv] + d }
    else { seq![d[0]] + ins_absent(d.drop_first(), kv) }
}

pub open spec fn sorted_dedup(s: Seq<Kv>) -> Seq<Kv>
    decreases s.len()
{
    if s.len() == 0 { Seq::empty() } else { ins_absent(sorted_dedup(s.drop_last()), s.last()) }
}

// the answer `p.is_unique()` gives (a function of the value: `is_unique` takes `&self` and has no other input)
pub uninterp spec fn claims_unique<P: ?Sized>(p: &P) -> bool;

pub open spec fn dedup_seq(s: Seq<Kv>, unique: bool) -> Seq<Kv> {
    if unique && no_dup_keys(s) { s } else { sorted_dedup(s) }
}

pub open spec fn same_first(a: Seq<Kv>, b: Seq<Kv>) -> bool {
    forall|k: Key| first(a, k) == first(b, k)
}

pub open spec fn has_key(d: Seq<Kv>, k: Key) -> bool {
    exists|i: int| 0 <= i < d.len() && d[i].0 == k
}

pub proof fn lemma_first_some(s: Seq<Kv>, k: Key)
    ensures first(s, k) is Some <==> has_key(s, k)
{
    lemma_first_none(s, k);
    if first(s, k) is Some {
        let i = choose|i: int| 0 <= i < s.len() && s[i].0 == k;
        assert(0 <= i < s.len() && s[i].0 == k);
    }
}

pub proof fn lemma_asc_tail(d: Seq<Kv>)
    requires asc_keys(d), d.len() > 0
    ensures
        asc_keys(d.drop_first()),
        forall|i: int| 0 <= i < d.drop_first().len() ==> lex_lt(d[0].0, #[trigger] d.drop_first()[i].0),
        first(d.drop_first(), d[0].0) is None,
{
    let t = d.drop_first();
    assert forall|i: int, j: int| 0 <= i < j < t.len() implies lex_lt(#[trigger] t[i].0, #[trigger] t[j].0) by {
        assert(lex_lt(d[i + 1].0, d[j + 1].0));
    }
    assert forall|i: int| 0 <= i < t.len() implies lex_lt(d[0].0, #[trigger] t[i].0) by {
        assert(lex_lt(d[0].0, d[i + 1].0));
    }
    lemma_first_none(t, d[0].0);
    assert forall|i: int| 0 <= i < t.len() implies t[i].0 != d[0].0 by {
        lemma_lex_irrefl(d[0].0);
    }
}

pub proof fn lemma_asc_no_dup(d: Seq<Kv>)
    requires asc_keys(d)
    ensures no_dup_keys(d)
{
    assert forall|i: int, j: int| 0 <= i < j < d.len() implies d[i].0 != d[j].0 by {
        assert(lex_lt(d[i].0, d[j].0));
        lemma_lex_irrefl(d[i].0);
    }
}

// a key smaller than the head of an ascending sequence is not in it
pub proof fn lemma_asc_below_head(d: Seq<Kv>, k: Key)
    requires asc_keys(d), d.len() > 0, lex_lt(k, d[0].0)
    ensures first(d, k) is None
{
    lemma_first_none(d, k);
    assert forall|i: int| 0 <= i < d.len() implies d[i].0 != k by {
        if i > 0 { assert(lex_lt(d[0].0, d[i].0)); lemma_lex_trans(k, d[0].0, d[i].0); }
        lemma_lex_irrefl(k);
    }
}

pub open spec fn ins_first(d: Seq<Kv>, kv: Kv, k: Key) -> Option<Val> {
    if first(d, k) is Some { first(d, k) } else if k == kv.0 { Some(kv.1) } else { None }
}

pub proof fn lemma_ins_absent(d: Seq<Kv>, kv: Kv)
    requires asc_keys(d)
    ensures
        asc_keys(ins_absent(d, kv)),
        forall|k: Key| first(ins_absent(d, kv), k) == ins_first(d, kv, k),
        forall|i: int| 0 <= i < ins_absent(d, kv).len() ==> (#[trigger] ins_absent(d, kv)[i]).0 == kv.0 || has_key(d, ins_absent(d, kv)[i].0),
    decreases d.len()
{
    let r = ins_absent(d, kv);
    if d.len() == 0 {
        assert forall|k: Key| first(r, k) == ins_first(d, kv, k) by { reveal_with_fuel(first, 2); }
    } else if d[0].0 == kv.0 {
        assert forall|i: int| 0 <= i < r.len() implies (#[trigger] r[i]).0 == kv.0 || has_key(d, r[i].0) by {
            assert(d[i].0 == r[i].0);
        }
    } else if lex_lt(kv.0, d[0].0) {
        assert forall|i: int, j: int| 0 <= i < j < r.len() implies lex_lt(#[trigger] r[i].0, #[trigger] r[j].0) by {
            if i == 0 {
                if j > 1 { assert(lex_lt(d[0].0, d[j - 1].0)); lemma_lex_trans(kv.0, d[0].0, d[j - 1].0); }
            } else {
                assert(lex_lt(d[i - 1].0, d[j - 1].0));
            }
        }
        lemma_asc_below_head(d, kv.0);
        assert forall|k: Key| first(r, k) == ins_first(d, kv, k) by {
            lemma_first_concat(seq![kv], d, k);
            assert(first(seq![kv], k) == (if kv.0 == k { Some(kv.1) } else { None::<Val> })) by { reveal_with_fuel(first, 2); }
        }
        assert forall|i: int| 0 <= i < r.len() implies (#[trigger] r[i]).0 == kv.0 || has_key(d, r[i].0) by {
            if i > 0 { assert(d[i - 1].0 == r[i].0); }
        }
    } else {
        let t = d.drop_first();
        let rt = ins_absent(t, kv);
        lemma_asc_tail(d);
        lemma_ins_absent(t, kv);
        lemma_lex_total(kv.0, d[0].0);
        assert(lex_lt(d[0].0, kv.0));
        assert(r =~= seq![d[0]] + rt);
        assert forall|i: int, j: int| 0 <= i < j < r.len() implies lex_lt(#[trigger] r[i].0, #[trigger] r[j].0) by {
            if i == 0 {
                assert(r[j] == rt[j - 1]);
                if rt[j - 1].0 != kv.0 {
                    assert(has_key(t, rt[j - 1].0));
                    let x = choose|x: int| 0 <= x < t.len() && t[x].0 == rt[j - 1].0;
                    assert(lex_lt(d[0].0, t[x].0));
                }
            } else {
                assert(lex_lt(rt[i - 1].0, rt[j - 1].0));
            }
        }
        assert forall|k: Key| first(r, k) == ins_first(d, kv, k) by {
            lemma_first_concat(seq![d[0]], rt, k);
            assert(first(seq![d[0]], k) == (if d[0].0 == k { Some(d[0].1) } else { None::<Val> })) by { reveal_with_fuel(first, 2); }
            assert(first(rt, k) == ins_first(t, kv, k));
        }
        assert forall|i: int| 0 <= i < r.len() implies (#[trigger] r[i]).0 == kv.0 || has_key(d, r[i].0) by {
            if i == 0 {
                assert(d[0].0 == r[0].0);
            } else if rt[i - 1].0 != kv.0 {
                assert(has_key(t, rt[i - 1].0));
                let x = choose|x: int| 0 <= x < t.len() && t[x].0 == rt[i - 1].0;
                assert(d[x + 1].0 == r[i].0);
            }
        }
    }
}

// the sorted de-duplication: ascending (hence duplicate-free), and every key has the source's FIRST value
pub proof fn lemma_sorted_dedup(s: Seq<Kv>)
    ensures
        asc_keys(sorted_dedup(s)),
        same_first(sorted_dedup(s), s),
    decreases s.len()
{
    if s.len() > 0 {
        let s1 = s.drop_last();
        let x = s.last();
        lemma_sorted_dedup(s1);
        lemma_ins_absent(sorted_dedup(s1), x);
        assert(s =~= s1 + seq![x]);
        assert forall|k: Key| first(sorted_dedup(s), k) == first(s, k) by {
            lemma_first_concat(s1, seq![x], k);
            assert(first(seq![x], k) == (if x.0 == k { Some(x.1) } else { None::<Val> })) by { reveal_with_fuel(first, 2); }
            assert(first(sorted_dedup(s1), k) == first(s1, k));
            assert(first(sorted_dedup(s), k) == ins_first(sorted_dedup(s1), x, k));
        }
    } else {
        assert forall|k: Key| first(sorted_dedup(s), k) == first(s, k) by {}
    }
}

// an ascending sequence is determined by its lookups
pub proof fn lemma_asc_unique(a: Seq<Kv>, b: Seq<Kv>)
    requires asc_keys(a), asc_keys(b), same_first(a, b)
    ensures a == b
    decreases a.len()
{
    if a.len() == 0 {
        if b.len() > 0 { assert(first(a, b[0].0) == first(b, b[0].0)); }
        assert(a =~= b);
    } else {
        assert(first(a, a[0].0) == first(b, a[0].0));
        assert(b.len() > 0);
        assert(first(a, b[0].0) == first(b, b[0].0));
        lemma_lex_total(a[0].0, b[0].0);
        if lex_lt(a[0].0, b[0].0) { lemma_asc_below_head(b, a[0].0); }
        if lex_lt(b[0].0, a[0].0) { lemma_asc_below_head(a, b[0].0); }
        assert(a[0] == b[0]);
        lemma_asc_tail(a);
        lemma_asc_tail(b);
        let ta = a.drop_first();
        let tb = b.drop_first();
        assert forall|k: Key| first(ta, k) == first(tb, k) by {
            assert(first(a, k) == first(b, k));
        }
        lemma_asc_unique(ta, tb);
        assert(a =~= seq![a[0]] + ta);
        assert(b =~= seq![b[0]] + tb);
    }
}

// any ascending sequence with the source's lookups IS the sorted de-duplication
pub proof fn lemma_sorted_dedup_unique(s: Seq<Kv>)
    ensures forall|d: Seq<Kv>| #[trigger] asc_keys(d) && same_first(d, s) ==> d == sorted_dedup(s)
{
    lemma_sorted_dedup(s);
    assert forall|d: Seq<Kv>| #[trigger] asc_keys(d) && same_first(d, s) implies d == sorted_dedup(s) by {
        assert forall|k: Key| first(d, k) == first(sorted_dedup(s), k) by {
            assert(first(d, k) == first(s, k));
            assert(first(sorted_dedup(s), k) == first(s, k));
        }
        lemma_asc_unique(d, sorted_dedup(s));
    }
}

pub proof fn lemma_dedup_seq(s: Seq<Kv>, unique: bool)
    ensures is_dedup_of(dedup_seq(s, unique), s)
{
    if !(unique && no_dup_keys(s)) {
        lemma_sorted_dedup(s);
        lemma_asc_no_dup(sorted_dedup(s));
        assert forall|k: Key| first(sorted_dedup(s), k) == first(s, k) by {}
    }
}

// `Dedup<P>::kvs()` is a de-duplication of the source's sequence, whatever the source answers to `is_unique()`
pub proof fn lemma_dedup_kvs(s: Seq<Kv>)
    ensures forall|u: bool| is_dedup_of(#[trigger] dedup_seq(s, u), s)
{
    lemma_dedup_seq(s, true);
    lemma_dedup_seq(s, false);
}

// slices: one more child contributes its own sequence
pub proof fn lemma_flat_step<P: PropsView>(s: Seq<P>, i: int)
    requires 0 <= i < s.len()
    ensures flat_kvs(s.take(i + 1)) == flat_kvs(s.take(i)) + s[i].kvs()
{
    assert(s.take(i + 1).drop_last() =~= s.take(i));
    assert(s.take(i + 1).last() == s[i]);
}

pub proof fn lemma_flat_concat<P: PropsView>(a: Seq<P>, b: Seq<P>)
    ensures flat_kvs(a + b) == flat_kvs(a) + flat_kvs(b)
    decreases b.len()
{
    if b.len() == 0 {
        assert(a + b =~= a);
        assert(flat_kvs(a) + flat_kvs(b) =~= flat_kvs(a));
    } else {
        assert((a + b).drop_last() =~= a + b.drop_last());
        assert((a + b).last() == b.last());
        lemma_flat_concat(a, b.drop_last());
        assert((flat_kvs(a) + flat_kvs(b.drop_last())) + b.last().kvs() =~= flat_kvs(a) + (flat_kvs(b.drop_last()) + b.last().kvs()));
    }
}
