// Shared by core_template_render / core_template_repr: the writer mirror (call level) and what
// rendering a part sequence means. Needs _shared/template_props.rs.
// What a writer was asked to do, and whether it said Ok (rule R9: the template-aware writer is an
// effect sink; its methods are the only observable output of rendering). The calls are recorded in a
// ghost trace handed to every sink call rather than in a view of the writer, because the real
// signatures take the writer by value (`mut writer: impl Write`, instantiated at `&mut W` by the
// caller): a by-value generic has no post-state a contract could name.
pub enum Call {
    Text(Seq<u8>),                      // write_text(text)
    HoleValue(Seq<u8>, int),            // write_hole_value(label, value)
    HoleFmt(Seq<u8>, int, Formatter),   // write_hole_fmt(label, value, formatter)
    HoleLabel(Seq<u8>),                 // write_hole_label(label)
    RawStr(Seq<u8>),                    // fmt::Write::write_str(s): text pushed past the template-aware methods
    RawChar(char),                      // fmt::Write::write_char(c)
}
pub tracked struct Out {
    pub ghost calls: Seq<(Call, bool)>,
}

// Mirror of `template::Write` (template.rs:333-371), the four members the bodies call (the
// `fmt::Write` supertrait and the default bodies, which go through `format_args!`, are left out).
// Every call is recorded in `out` with its real arguments and its result.
// (`FmtWrite` stands for the supertrait `core::fmt::Write`: a writer can also be fed raw text, which is a
// different event from any of the four template-aware calls)
pub trait FmtWrite {
    fn write_str(&mut self, s: &str, Tracked(out): Tracked<&mut Out>) -> (r: fmt::Result)
        ensures final(out).calls == old(out).calls.push((Call::RawStr(s.spec_bytes()), r is Ok));
    fn write_char(&mut self, c: char, Tracked(out): Tracked<&mut Out>) -> (r: fmt::Result)
        ensures final(out).calls == old(out).calls.push((Call::RawChar(c), r is Ok));
}
impl<'a, W: FmtWrite + ?Sized> FmtWrite for &'a mut W {
    #[verifier::external_body]
    fn write_str(&mut self, s: &str, Tracked(out): Tracked<&mut Out>) -> (r: fmt::Result) { unimplemented!() }
    #[verifier::external_body]
    fn write_char(&mut self, c: char, Tracked(out): Tracked<&mut Out>) -> (r: fmt::Result) { unimplemented!() }
}
pub trait Write: FmtWrite {
    fn write_text(&mut self, text: &str, Tracked(out): Tracked<&mut Out>) -> (r: fmt::Result)
        ensures final(out).calls == old(out).calls.push((Call::Text(text.spec_bytes()), r is Ok));
    fn write_hole_value(&mut self, label: &str, value: Value, Tracked(out): Tracked<&mut Out>) -> (r: fmt::Result)
        ensures final(out).calls == old(out).calls.push((Call::HoleValue(label.spec_bytes(), value.id()), r is Ok));
    fn write_hole_fmt(&mut self, label: &str, value: Value, formatter: Formatter, Tracked(out): Tracked<&mut Out>) -> (r: fmt::Result)
        ensures final(out).calls == old(out).calls.push((Call::HoleFmt(label.spec_bytes(), value.id(), formatter), r is Ok));
    fn write_hole_label(&mut self, label: &str, Tracked(out): Tracked<&mut Out>) -> (r: fmt::Result)
        ensures final(out).calls == old(out).calls.push((Call::HoleLabel(label.spec_bytes()), r is Ok));
}

// ---------- what rendering a part means ----------
pub open spec fn part_call<P: Props>(p: Part, props: P) -> Call {
    match p.0 {
        PartKind::Text { value } => Call::Text(value.bytes()),
        PartKind::Hole { label, formatter } => match props.first(label.bytes()) {
            Some(v) => match formatter {
                Some(f) => Call::HoleFmt(label.bytes(), v, f),
                None => Call::HoleValue(label.bytes(), v),
            },
            None => Call::HoleLabel(label.bytes()),
        },
    }
}

// the first n entries of the output of rendering `parts`: one call per part, in order; every
// call but the last succeeded, the last one succeeded iff `last_ok`
pub open spec fn render_calls<P: Props>(parts: Seq<Part>, props: P, n: int, last_ok: bool) -> Seq<(Call, bool)> {
    Seq::new(n as nat, |i: int| (part_call(parts[i], props), i < n - 1 || last_ok))
}
