// RFC 3339 text form (UTC, `Z`) of calendar parts, shared by core_timestamp_fmt and
// core_timestamp_parse. Written from the grammar, nothing here is derived from emit's code.
// Needs `Parts` (extracted) in scope.

pub open spec fn pow10(n: nat) -> nat
    decreases n
{
    if n == 0 { 1 } else { 10 * pow10((n - 1) as nat) }
}

// ---- formatter side: the text that denotes parts `p` with `k` fraction digits ----

// ASCII digit of `v` at decimal place `place` (1, 10, 100, ..)
pub open spec fn digit(v: int, place: int) -> u8 { (0x30 + (v / place) % 10) as u8 }

// `YYYY-MM-DDTHH:MM:SS`, every field zero padded to its fixed width
pub open spec fn rfc3339_head(p: Parts) -> Seq<u8> {
    seq![
        digit(p.years as int, 1000), digit(p.years as int, 100), digit(p.years as int, 10), digit(p.years as int, 1), 0x2du8,
        digit(p.months as int, 10), digit(p.months as int, 1), 0x2du8,
        digit(p.days as int, 10), digit(p.days as int, 1), 0x54u8,
        digit(p.hours as int, 10), digit(p.hours as int, 1), 0x3au8,
        digit(p.minutes as int, 10), digit(p.minutes as int, 1), 0x3au8,
        digit(p.seconds as int, 10), digit(p.seconds as int, 1)]
}
// the i-th most significant ASCII digit of `v` written with `w` digits (zero padded)
pub open spec fn dig_at(v: int, w: int, i: int) -> u8 { digit(v, pow10((w - 1 - i) as nat) as int) }
// the first k digits of the 9-digit zero-padded nanosecond count
pub open spec fn rfc3339_frac(nanos: int, k: int) -> Seq<u8> {
    Seq::new(k as nat, |j: int| dig_at(nanos, 9, j))
}
pub open spec fn rfc3339_text(p: Parts, k: int) -> Seq<u8> {
    if k == 0 { rfc3339_head(p).push(0x5au8) }
    else { rfc3339_head(p).push(0x2eu8) + rfc3339_frac(p.nanos as int, k).push(0x5au8) }
}
// number of fraction digits a `{:.N}` / `{}` format asks for
pub open spec fn fmt_digits(prec: Option<usize>) -> int {
    match prec { Some(n) => if n < 9 { n as int } else { 9 }, None => 9 }
}

// ---- parser side: the grammar and what a text of that grammar denotes ----

pub open spec fn is_digit(b: u8) -> bool { 0x30 <= b <= 0x39 }
pub open spec fn all_digits(s: Seq<u8>) -> bool { forall|i: int| 0 <= i < s.len() ==> is_digit(#[trigger] s[i]) }
// value of a run of ASCII digits
pub open spec fn dec(s: Seq<u8>) -> nat
    decreases s.len()
{
    if s.len() == 0 { 0 } else { dec(s.drop_last()) * 10 + (s.last() - 0x30) as nat }
}

// YYYY-MM-DDTHH:MM:SS[.f{1,9}]Z
pub open spec fn rfc3339_shape(s: Seq<u8>) -> bool {
    &&& 20 <= s.len() <= 30
    &&& s.len() != 21
    &&& s[s.len() - 1] == 0x5a  // Z
    &&& all_digits(s.subrange(0, 4)) && s[4] == 0x2d && all_digits(s.subrange(5, 7)) && s[7] == 0x2d && all_digits(s.subrange(8, 10))
    &&& s[10] == 0x54 // T
    &&& all_digits(s.subrange(11, 13)) && s[13] == 0x3a && all_digits(s.subrange(14, 16)) && s[16] == 0x3a && all_digits(s.subrange(17, 19))
    &&& (s.len() > 20 ==> s[19] == 0x2e && all_digits(s.subrange(20, s.len() - 1)))
}
// `p` is what the text `s` (of the shape above) says: each field is the decimal value of its
// digits, the fraction of d = len-21 digits is scaled to nanoseconds by 10^(9-d)
pub open spec fn parts_denote(p: Parts, s: Seq<u8>) -> bool {
    &&& p.years == dec(s.subrange(0, 4)) && p.months == dec(s.subrange(5, 7)) && p.days == dec(s.subrange(8, 10))
    &&& p.hours == dec(s.subrange(11, 13)) && p.minutes == dec(s.subrange(14, 16)) && p.seconds == dec(s.subrange(17, 19))
    &&& p.nanos == (if s.len() > 20 { dec(s.subrange(20, s.len() - 1)) * pow10((30 - s.len()) as nat) } else { 0 })
}

// ---- small arithmetic facts ----

pub proof fn lemma_pow10_values()
    ensures pow10(0) == 1 && pow10(1) == 10 && pow10(2) == 100 && pow10(3) == 1000 && pow10(4) == 10000 && pow10(5) == 100000
        && pow10(6) == 1000000 && pow10(7) == 10000000 && pow10(8) == 100000000 && pow10(9) == 1000000000
{
    reveal_with_fuel(pow10, 11);
}
