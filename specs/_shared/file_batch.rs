// Shared by file_event_batch and file_write: the EventBatch representation, its invariant and the
// cursor operations `current` / `advance` (extracted and proved wherever this file is included).
// (expects `use vstd::prelude::*; use std::mem;`)

// ---- assumed contracts of std functions (trusted) ----
pub assume_specification<T: Default> [core::mem::take::<T>](dest: &mut T) -> (r: T)
    ensures r == *old(dest), T::default.ensures((), *final(dest));
pub assume_specification<T> [<Box<[T]> as Default>::default]() -> (r: Box<[T]>)
    ensures r@.len() == 0;

//@extract emitter/file/src/lib.rs / struct EventBatch
//@rules R1 R2
//@end

// ---- specification vocabulary ----
pub open spec fn sum_from(b: Seq<Box<[u8]>>, i: int) -> int
    decreases b.len() - i
{
    if i >= b.len() || i < 0 { 0 } else { b[i]@.len() + sum_from(b, i + 1) }
}

proof fn lemma_sum_push(b: Seq<Box<[u8]>>, x: Box<[u8]>, i: int)
    requires 0 <= i <= b.len()
    ensures sum_from(b.push(x), i) == sum_from(b, i) + x@.len()
    decreases b.len() - i
{
    if i < b.len() {
        lemma_sum_push(b, x, i + 1);
        assert(b.push(x)[i] == b[i]);
    } else {
        assert(sum_from(b.push(x), i + 1) == 0);
    }
}

proof fn lemma_sum_nonneg(b: Seq<Box<[u8]>>, i: int)
    ensures sum_from(b, i) >= 0
    decreases b.len() - i
{
    if 0 <= i < b.len() { lemma_sum_nonneg(b, i + 1); }
}

// replacing an element before position i does not change the sum from i
proof fn lemma_sum_update_before(b: Seq<Box<[u8]>>, x: Box<[u8]>, k: int, i: int)
    requires 0 <= k < i <= b.len()
    ensures sum_from(b.update(k, x), i) == sum_from(b, i)
    decreases b.len() - i
{
    if i < b.len() { lemma_sum_update_before(b, x, k, i + 1); }
}

// replacing the element at position k >= i changes the sum from i by the difference of the lengths
proof fn lemma_sum_update_at(b: Seq<Box<[u8]>>, x: Box<[u8]>, k: int, i: int)
    requires 0 <= i <= k < b.len()
    ensures sum_from(b.update(k, x), i) == sum_from(b, i) - b[k]@.len() + x@.len()
    decreases k - i
{
    if i < k {
        lemma_sum_update_at(b, x, k, i + 1);
        assert(b.update(k, x)[i] == b[i]);
    } else {
        lemma_sum_update_before(b, x, k, k + 1);
    }
}

// a tail of the buffers is no larger than all of them
proof fn lemma_sum_tail(b: Seq<Box<[u8]>>, i: int)
    requires 0 <= i
    ensures sum_from(b, i) <= sum_from(b, 0)
    decreases i
{
    lemma_sum_nonneg(b, i);
    if i > 0 {
        lemma_sum_tail(b, i - 1);
        if i - 1 < b.len() { assert(sum_from(b, i - 1) == b[i - 1]@.len() + sum_from(b, i)); }
    }
}

impl EventBatch {
    pub open spec fn wf(&self) -> bool {
        &&& self.index <= self.bufs@.len()
        &&& self.bufs@.len() <= usize::MAX
        &&& self.remaining_bytes == sum_from(self.bufs@, self.index as int)
    }
    pub open spec fn items(&self) -> Seq<Box<[u8]>> {
        self.bufs@.subrange(self.index as int, self.bufs@.len() as int)
    }
    // total size of the abstract view (what remaining_bytes stands for)
    pub open spec fn bytes_left(&self) -> int { sum_from(self.bufs@, self.index as int) }
    // explicit resource precondition of push (the one fact not provable from the code:
    // a Vec holds < usize::MAX elements and the queued bytes fit the address space)
    pub open spec fn has_room(&self, n: int) -> bool {
        self.bufs@.len() < usize::MAX && self.remaining_bytes + n <= usize::MAX
    }
}

//@extract emitter/file/src/lib.rs / impl EventBatch #1 / fn current
//@rules R1 R2
//@ret r
//@sig
        requires self.wf(),
        ensures
            r.is_some() == (self.items().len() > 0),
            r.is_some() ==> r->Some_0@ == self.items()[0]@,
//@closure 0
    -> (r: &[u8]) ensures r@ == buf@
//@end

