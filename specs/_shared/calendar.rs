// Independent civil-calendar specification (proleptic Gregorian, UTC), shared by the
// timestamp units. Nothing here is derived from emit's code.
pub open spec fn is_leap(y: int) -> bool { y % 4 == 0 && (y % 100 != 0 || y % 400 == 0) }
pub open spec fn leaps_before(y: int) -> int { (y - 1) / 4 - (y - 1) / 100 + (y - 1) / 400 }
pub open spec fn days_before_year(y: int) -> int { 365 * (y - 1970) + leaps_before(y) - leaps_before(1970) }
pub open spec fn dim(y: int, m: int) -> int {
    if m == 2 { if is_leap(y) { 29 } else { 28 } }
    else if m == 4 || m == 6 || m == 9 || m == 11 { 30 } else { 31 }
}
pub open spec fn days_before_month(y: int, m: int) -> int
    decreases m
{
    if m <= 1 { 0 } else { days_before_month(y, m - 1) + dim(y, m - 1) }
}
pub open spec fn valid_parts(p: Parts) -> bool {
    1970 <= p.years <= 9999 && 1 <= p.months <= 12 && 1 <= p.days <= dim(p.years as int, p.months as int)
    && p.hours < 24 && p.minutes < 60 && p.seconds < 60 && p.nanos < 1_000_000_000
}
pub open spec fn civil_secs(p: Parts) -> int {
    (days_before_year(p.years as int) + days_before_month(p.years as int, p.months as int) + p.days - 1) * 86400
     + p.hours * 3600 + p.minutes * 60 + p.seconds
}
