// ---------------------------------------------------------------------------------
// specs/_shared/batcher_spec.rs — shared, self-contained, spec-only vocabulary for the
// batching channel of /repo/batcher/src/lib.rs (properties C06, C07, C09).
//
// Included (inside `verus! { .. }`) by batcher_sender.vx, batcher_receiver.vx and
// batcher_history.vx. It needs nothing but `use vstd::prelude::*;`: it names no exec
// type, so each unit supplies its own view functions from `State<T>` / `Batch<T>` to
// `ChanView` / `BatchView` (see `_shared/batcher_types.rs` for one set).
//
// Every `*_post` relation below is used twice: (1) in the `ensures` of the extracted
// critical section / code region it describes, (2) as the definition of one
// transition of the ghost history system of batcher_history.vx. Keep them stable.
//
// I = `<T as Channel>::Item`. A watcher (boxed callback) is identified by a ghost `int`.
// ---------------------------------------------------------------------------------

/// View of a `Batch<T>` (lib.rs:687): the channel as the sequence of items pushed onto it,
/// and the ids of the two watcher lists in registration order.
pub ghost struct BatchView<I> {
    pub items: Seq<I>,
    pub on_take: Seq<int>,
    pub on_flush: Seq<int>,
}

/// View of `State<T>` (lib.rs:681), i.e. of everything behind `Shared.state`'s mutex.
pub ghost struct ChanView<I> {
    pub next: BatchView<I>,   // State.next_batch: the pending batch
    pub is_open: bool,
    pub is_in_batch: bool,
}

/// A batch with no items and no watchers (what `Batch::new()`, `Default::default()` and the
/// re-allocated replacement buffer are).
pub open spec fn batch_empty<I>(b: BatchView<I>) -> bool {
    b.items.len() == 0 && b.on_take.len() == 0 && b.on_flush.len() == 0
}

/// Two batch views are the same batch (extensional).
pub open spec fn batch_eq<I>(a: BatchView<I>, b: BatchView<I>) -> bool {
    a.items =~= b.items && a.on_take =~= b.on_take && a.on_flush =~= b.on_flush
}

/// `t` differs from `s` at most in the pending items.
pub open spec fn chan_frame_items<I>(s: ChanView<I>, t: ChanView<I>) -> bool {
    t.next.on_take =~= s.next.on_take && t.next.on_flush =~= s.next.on_flush
        && t.is_open == s.is_open && t.is_in_batch == s.is_in_batch
}

/// C09 bound: the pending queue is within the configured capacity.
pub open spec fn chan_bounded<I>(s: ChanView<I>, cap: int) -> bool {
    s.next.items.len() <= cap
}

/// Critical section of `Sender::send` (lib.rs:181-198), `cap = self.max_capacity`,
/// `trunc0/trunc1` = the `queue_full_truncated` counter before/after.
///   * full (|pending| >= cap): the whole pending queue is discarded and the counter grows by one
///     — this happens *before* the closed test, so also on a closed channel;
///   * open: `msg` is appended (to the emptied queue when full), closed: `msg` is not appended;
///   * watchers, `is_open`, `is_in_batch` unchanged. No other outcome, no waiting.
pub open spec fn send_post<I>(s: ChanView<I>, t: ChanView<I>, cap: int, msg: I, trunc0: nat, trunc1: nat) -> bool {
    let full = s.next.items.len() >= cap;
    let base = if full { Seq::<I>::empty() } else { s.next.items };
    &&& t.next.items =~= (if s.is_open { base.push(msg) } else { base })
    &&& trunc1 == trunc0 + (if full { 1nat } else { 0nat })
    &&& chan_frame_items(s, t)
}

/// Critical section of `Sender::try_send` (lib.rs:205-220). `ok` = the result is `Ok(())`;
/// `returned` = `retryable` of the error (`None` when `ok`).
///   * ok  <=> open and |pending| < cap; then `msg` is appended (so |pending'| <= cap);
///   * !ok  => state unchanged, nothing discarded; open (full) => the error carries exactly
///     `msg` (`retryable == Some(msg)`), closed => `retryable == None` (the item is dropped
///     with the error: documented tear-down case).
pub open spec fn try_send_post<I>(s: ChanView<I>, t: ChanView<I>, cap: int, msg: I, ok: bool, returned: Option<I>) -> bool {
    &&& ok == (s.is_open && s.next.items.len() < cap)
    &&& t.next.items =~= (if ok { s.next.items.push(msg) } else { s.next.items })
    &&& returned == (if !ok && s.is_open { Some(msg) } else { None::<I> })
    &&& chan_frame_items(s, t)
}

/// The condition under which `when_flushed` fires its callback at once (lib.rs:293).
pub open spec fn flush_now<I>(s: ChanView<I>) -> bool {
    !s.is_in_batch && (s.next.items.len() == 0 || !s.is_open)
}

/// Critical section of `Sender::when_flushed` (lib.rs:284-303) for the watcher with id `w`.
/// `now` = the callback was called immediately (after releasing the lock) instead of being stored.
///   * now <=> flush_now(s); then the state is unchanged;
///   * otherwise `w` is appended to the *pending* batch's on_flush list; nothing else changes.
pub open spec fn when_flushed_post<I>(s: ChanView<I>, t: ChanView<I>, w: int, now: bool) -> bool {
    &&& now == flush_now(s)
    &&& t.next.on_flush =~= (if now { s.next.on_flush } else { s.next.on_flush.push(w) })
    &&& t.next.on_take =~= s.next.on_take
    &&& t.next.items =~= s.next.items
    &&& t.is_open == s.is_open && t.is_in_batch == s.is_in_batch
}

/// Critical section of `Sender::when_empty` (lib.rs:263-277): immediate <=> the pending queue is
/// empty; otherwise `w` is appended to the pending batch's on_take list.
pub open spec fn when_empty_post<I>(s: ChanView<I>, t: ChanView<I>, w: int, now: bool) -> bool {
    &&& now == (s.next.items.len() == 0)
    &&& t.next.on_take =~= (if now { s.next.on_take } else { s.next.on_take.push(w) })
    &&& t.next.on_flush =~= s.next.on_flush
    &&& t.next.items =~= s.next.items
    &&& t.is_open == s.is_open && t.is_in_batch == s.is_in_batch
}

/// `Drop for Sender` / `Drop for Receiver` (lib.rs:169-173, 330-338): the channel is closed.
pub open spec fn close_post<I>(s: ChanView<I>, t: ChanView<I>) -> bool {
    &&& !t.is_open
    &&& t.is_in_batch == s.is_in_batch
    &&& batch_eq(t.next, s.next)
}

/// Hand-off critical section of `Receiver::exec` (lib.rs:363-394).
/// `s/t` = shared state before/after, `spare/spare2` = the receiver's local pre-allocated
/// `next_batch` before/after, `out` = the batch bound to `current_batch`, `open` = the `is_open`
/// value bound next to it.
///   * pending non-empty: `out` is *all* of the pending batch with both watcher lists, the shared
///     state receives the spare batch (the caller must know `batch_empty(spare)` for the queue to be
///     empty afterwards), `is_in_batch' = true`, the local spare is left `Default` (empty);
///   * pending empty: `out` has no items and takes both watcher lists, the shared pending batch
///     keeps its (empty) items and has no watchers, `is_in_batch' = false`, spare untouched;
///   * `is_open` unchanged and reported in `open`.
pub open spec fn handoff_post<I>(s: ChanView<I>, t: ChanView<I>, spare: BatchView<I>, spare2: BatchView<I>, out: BatchView<I>, open: bool) -> bool {
    &&& open == s.is_open
    &&& t.is_open == s.is_open
    &&& if s.next.items.len() > 0 {
            &&& t.is_in_batch
            &&& batch_eq(out, s.next)
            &&& batch_eq(t.next, spare)
            &&& batch_empty(spare2)
        } else {
            &&& !t.is_in_batch
            &&& out.items.len() == 0
            &&& out.on_take =~= s.next.on_take
            &&& out.on_flush =~= s.next.on_flush
            &&& t.next.items =~= s.next.items
            &&& t.next.on_take.len() == 0
            &&& t.next.on_flush.len() == 0
            &&& batch_eq(spare2, spare)
        }
}

/// `current_batch.watchers.notify_on_take()` right after the hand-off (lib.rs:397): exactly the
/// on_take watchers of the batch are called, each once, in order; the list is left empty.
pub open spec fn taken_post<I>(cur: BatchView<I>, cur2: BatchView<I>, notified: Seq<int>) -> bool {
    &&& notified =~= cur.on_take
    &&& cur2.on_take.len() == 0
    &&& cur2.on_flush =~= cur.on_flush
    &&& cur2.items =~= cur.items
}

/// One `continue` of the retry loop (lib.rs:423-436): the next attempt's batch is exactly the
/// remainder `rem` the processor returned (non-empty), the watchers travel with it.
pub open spec fn retry_post<I>(cur: BatchView<I>, cur2: BatchView<I>, rem: Seq<I>) -> bool {
    &&& rem.len() > 0
    &&& cur2.items =~= rem
    &&& cur2.on_take =~= cur.on_take
    &&& cur2.on_flush =~= cur.on_flush
}

/// End of a receiver iteration: the retry loop has exited (or the hand-off was empty) and
/// `current_batch.watchers.notify_on_flush()` runs (lib.rs:455 / :460): exactly the on_flush
/// watchers travelling with the batch are called, each once, in order; the list is left empty.
/// (`cur.items` is not constrained: the channel has been moved into the processor.)
pub open spec fn finish_post<I>(cur: BatchView<I>, cur2: BatchView<I>, notified: Seq<int>) -> bool {
    &&& notified =~= cur.on_flush
    &&& cur2.on_flush.len() == 0
    &&& cur2.on_take =~= cur.on_take
}
