// In-module harnesses for /repo/emitter/term/src/lib.rs (included by the cfg(kani) hook `mod verif_incrate`).
//
// C13, terminal writer: the sparkline glyph index of `write_timeseries`
//     idx = (((v - min) / (max - min)) * ((BLOCKS.len() - 1) as f64)).ceil() as usize;   BLOCKS[idx]
// has NO integer clamp: that `idx < BLOCKS.len()` is a fact of IEEE-754 arithmetic (monotone rounding of
// `-` and `/`, NaN -> 0 and saturation of `as usize`). Verus does not decide that; CBMC is bit-precise on
// binary64, so a harness over full-domain symbolic f64 (NaNs of both signs and every payload, infinities,
// signed zeros, subnormals, min == max, ranges that overflow) is a complete proof of one bucket computation.
//
// The REAL `write_timeseries` is run (the index expression is not copied) on a 3-sample slice
// `[v, a, b]` of unconstrained f64. Reduction to slices of any length n >= 1 (pen-and-paper step, stated in
// the registry entry): the index computed for sample `s[i]` depends only on `(s[i], min, max)`, where `min` /
// `max` are the `f64::total_cmp` extremes of `{+NaN} u s` / `{-NaN} u s`; taking `a`, `b` := the samples of `s`
// attaining them, the run on `[s[i], a, b]` computes the same `min`, `max` (an extreme of a set is the extreme
// of any subset containing it; the fold's initial accumulators are the same constants) and hence in its first
// iteration the same `idx` as iteration `i` of the run on `s`. Every check below holds for every `[v, a, b]`,
// so no iteration of any run indexes out of bounds. (n = 0 never reaches the function: `write_event` tests
// `!buckets.is_empty()`, and the function's loops do not execute.)
//
// OUTCOME (Kani 0.68 / CBMC 6.11, `--no-overflow-checks` because Kani's NaN / float-overflow checks flag the NaN
// that min == max produces on purpose):
//   c13_term_sparkline_nonfinite  SUCCESSFUL, 27 s  - register this one (class: some sample NaN or infinite)
//   c13_term_sparkline_index      no answer in 1200 s (full domain)              - NOT registered
//   c13_term_sparkline_extremes   no answer in 1200 s / 900 s (cadical, minisat) - NOT registered
// The all-finite classes hinge on `mn <= v <= mx ==> v - mn <= mx - mn` (monotone rounding of two independent
// subtractions): as a stand-alone 3-variable query it got no answer in 900 s from cadical, minisat, kissat nor in 600 s
// from z3 (`--smt2 --fpa`), while `0 <= x <= y ==> x / y <= 1` (3-8 s) and `0 <= q <= 1 ==> ceil(q * 6) as usize <= 6`
// (2 s) are immediate. So for finite samples the index bound is NOT covered (f64).

mod proofs {
    use super::*;

    /// NOT REGISTERED (no answer in 20 min). No `[v, a, b]` makes `write_timeseries` panic (index out of bounds on
    /// BLOCKS, arithmetic, slice), and what it appends is exactly one 3-byte glyph of the table per sample followed
    /// by one `\n`.
    #[cfg_attr(kani, kani::proof)]
    #[cfg_attr(kani, kani::unwind(5))]
    pub fn c13_term_sparkline_index() {
        let v: f64 = kani::any();
        let a: f64 = kani::any();
        let b: f64 = kani::any();
        let samples = [v, a, b];

        let mut buf = Buffer::no_color();
        write_timeseries(&mut buf, &samples);

        let out = buf.as_slice();
        // every glyph of the table is 3 bytes of UTF-8 starting E2 96 and ending 81..=87
        assert!(out.len() == 3 * 3 + 1);
        assert!(out[9] == b'\n');
        let mut k = 0;
        while k < 3 {
            assert!(out[3 * k] == 0xE2 && out[3 * k + 1] == 0x96);
            assert!(out[3 * k + 2] >= 0x81 && out[3 * k + 2] <= 0x87);
            k += 1;
        }
        // vacuity guards: the interesting corners are reachable
        kani::cover!(true);
        kani::cover!(v.is_nan() && !a.is_nan() && !b.is_nan());
        kani::cover!(v == a && a == b);
        kani::cover!(out[2] == 0x87 && out[5] == 0x81, "maximum sample gets the last glyph, minimum the first");
        kani::cover!(v.is_infinite() && a.is_finite());
    }

    /// Class 1 of the split: some sample is NaN or infinite (both signs, every NaN payload). Complete for this class.
    #[cfg_attr(kani, kani::proof)]
    #[cfg_attr(kani, kani::unwind(5))]
    pub fn c13_term_sparkline_nonfinite() {
        let v: f64 = kani::any();
        let a: f64 = kani::any();
        let b: f64 = kani::any();
        kani::assume(!(v.is_finite() && a.is_finite() && b.is_finite()));
        let samples = [v, a, b];

        let mut buf = Buffer::no_color();
        write_timeseries(&mut buf, &samples);

        let out = buf.as_slice();
        assert!(out.len() == 3 * 3 + 1);
        assert!(out[9] == b'\n');
        kani::cover!(true);
        kani::cover!(v.is_nan() && a.is_finite() && b.is_finite());
        kani::cover!(v.is_finite() && a.is_infinite() && b.is_finite());
    }

    /// NOT REGISTERED (no answer in 15-20 min). Class 2 of the split: a two-sample series `[v, a]` of unconstrained f64, so each sample is the minimum or the
    /// maximum of its series (or both: v == a, the 0/0 case). By the reduction above this covers, in a series of any
    /// length, every sample that attains the series' minimum or maximum - the samples for which the quotient is
    /// 0/r, r/r or 0/0. (The seeded change C13-r4-1, `(v - min) * (6 / range)`, overflows the table exactly there.)
    #[cfg_attr(kani, kani::proof)]
    #[cfg_attr(kani, kani::unwind(4))]
    pub fn c13_term_sparkline_extremes() {
        let v: f64 = kani::any();
        let a: f64 = kani::any();
        let samples = [v, a];

        let mut buf = Buffer::no_color();
        write_timeseries(&mut buf, &samples);

        let out = buf.as_slice();
        assert!(out.len() == 2 * 3 + 1);
        assert!(out[6] == b'\n');
        kani::cover!(true);
        kani::cover!(v.is_finite() && a.is_finite() && v < a);
        kani::cover!(v == a);
    }

    // ---- replay table (generated by tools/mktable.py) ----
    pub fn run(name: &str) -> bool {
        match name {
            "c13_term_sparkline_index" => c13_term_sparkline_index(),
            "c13_term_sparkline_nonfinite" => c13_term_sparkline_nonfinite(),
            "c13_term_sparkline_extremes" => c13_term_sparkline_extremes(),
            _ => return false,
        }
        true
    }
}
