// In-module harnesses for /repo/src/span.rs (included by the cfg(kani) hook `mod verif_incrate`).
// C05: per-operation contracts of SpanGuard from an ARBITRARY abstract pre-state
// (phase in {Initial, Started, Completed}) x has_data x enabled, so that the invariant
// "fired <= 1 and fired == 1 only for (Started, data, enabled)" is inductive over any
// sequence of operations. Every harness is loop-free over full-domain symbolic inputs.

use super::completion::Completion;
use core::cell::Cell;
use emit_core::{clock::Clock, empty::Empty, path::Path, props::Props, str::Str, timestamp::Timestamp};

struct Count<'a>(&'a Cell<u32>);
impl<'a> Completion for Count<'a> {
    fn complete<P: Props>(&self, _: Span<P>) {
        self.0.set(self.0.get() + 1);
    }
}
struct Clk(Option<Timestamp>);
impl Clock for Clk {
    fn now(&self) -> Option<Timestamp> {
        self.0
    }
}

type G<'a> = SpanGuard<'a, &'a Clk, Empty, Count<'a>>;

fn any_guard<'a>(clk: &'a Clk, c: &'a Cell<u32>, phase: u8, has_data: bool, enabled: bool) -> G<'a> {
    SpanGuard {
        state: match phase {
            0 => SpanGuardState::Initial(clk),
            1 => SpanGuardState::Started(crate::timer::Timer::start(clk)),
            _ => SpanGuardState::Completed,
        },
        data: if has_data {
            Some(SpanGuardData { mdl: Path::new_raw("m"), name: Str::new("n"), ctxt: SpanCtxt::empty(), props: Empty })
        } else {
            None
        },
        completion: if enabled { Some(Count(c)) } else { None },
    }
}

fn phase_of<T: Clock, P: Props, F: Completion>(g: &SpanGuard<T, P, F>) -> u8 {
    match g.state {
        SpanGuardState::Initial(_) => 0,
        SpanGuardState::Started(_) => 1,
        SpanGuardState::Completed => 2,
    }
}

#[cfg(not(kani))]
include!(concat!(env!("EMIT_RS_EMIT_VERIF_DIR"), "/kani/shim.rs"));
#[cfg(not(kani))]
pub fn set_values(v: Vec<Vec<u8>>) {
    kani::set_values(v)
}
pub use proofs::run;

mod proofs {
    use super::*;

    struct Pre {
        phase: u8,
        has_data: bool,
        enabled: bool,
    }
    fn any_pre() -> Pre {
        let phase: u8 = kani::any();
        kani::assume(phase <= 2);
        Pre { phase, has_data: kani::any(), enabled: kani::any() }
    }
    fn should_fire(p: &Pre) -> bool {
        p.phase == 1 && p.has_data && p.enabled
    }

    /// start: Initial -> Started, otherwise nothing; never fires; data / enabled untouched.
    #[cfg_attr(kani, kani::proof)]
    fn c05_start_contract() {
        let clk = Clk(None);
        let c = Cell::new(0u32);
        let p = any_pre();
        let mut g = any_guard(&clk, &c, p.phase, p.has_data, p.enabled);
        g.start();
        assert!(c.get() == 0);
        assert!(phase_of(&g) == if p.phase == 0 { 1 } else { p.phase });
        assert!(g.data.is_some() == p.has_data);
        assert!(g.is_enabled() == p.enabled);
        core::mem::forget(g);
        kani::cover!(true);
    }

    /// with_completion: the new guard has the old (phase, has_data, enabled); neither completion fires;
    /// the replaced guard is inert (its Drop runs inside the method).
    #[cfg_attr(kani, kani::proof)]
    fn c05_with_completion_contract() {
        let clk = Clk(None);
        let c1 = Cell::new(0u32);
        let c2 = Cell::new(0u32);
        let p = any_pre();
        let g = any_guard(&clk, &c1, p.phase, p.has_data, p.enabled);
        let g2 = g.with_completion(Count(&c2));
        assert!(c1.get() == 0 && c2.get() == 0);
        assert!(phase_of(&g2) == p.phase);
        assert!(g2.data.is_some() == p.has_data);
        assert!(g2.is_enabled() == p.enabled);
        core::mem::forget(g2);
        kani::cover!(true);
    }

    /// with_mdl / with_name: builders preserve the abstract state and fire nothing.
    #[cfg_attr(kani, kani::proof)]
    fn c05_with_mdl_name_contract() {
        let clk = Clk(None);
        let c = Cell::new(0u32);
        let p = any_pre();
        let g = any_guard(&clk, &c, p.phase, p.has_data, p.enabled);
        let g = g.with_mdl(Path::new_raw("x")).with_name("y");
        assert!(c.get() == 0);
        assert!(phase_of(&g) == p.phase);
        assert!(g.data.is_some() == p.has_data);
        assert!(g.is_enabled() == p.enabled);
        core::mem::forget(g);
        kani::cover!(true);
    }

    /// map_props / with_props: state preserved, nothing fires, the mapping runs iff there is data.
    #[cfg_attr(kani, kani::proof)]
    fn c05_map_props_contract() {
        let clk = Clk(None);
        let c = Cell::new(0u32);
        let mapped = Cell::new(0u32);
        let p = any_pre();
        let g = any_guard(&clk, &c, p.phase, p.has_data, p.enabled);
        let g2 = g.map_props(|e| {
            mapped.set(mapped.get() + 1);
            e
        });
        assert!(c.get() == 0);
        assert!(mapped.get() == if p.has_data { 1 } else { 0 });
        assert!(phase_of(&g2) == p.phase);
        assert!(g2.data.is_some() == p.has_data);
        assert!(g2.is_enabled() == p.enabled);
        let g3 = g2.with_props(Empty);
        assert!(c.get() == 0);
        assert!(phase_of(&g3) == p.phase && g3.data.is_some() == p.has_data && g3.is_enabled() == p.enabled);
        core::mem::forget(g3);
        kani::cover!(true);
    }

    /// complete: fires exactly one completion iff (Started, data, enabled) and returns that boolean.
    #[cfg_attr(kani, kani::proof)]
    fn c05_complete_contract() {
        let clk = Clk(None);
        let c = Cell::new(0u32);
        let p = any_pre();
        let g = any_guard(&clk, &c, p.phase, p.has_data, p.enabled);
        let r = g.complete();
        assert!(r == should_fire(&p));
        assert!(c.get() == if should_fire(&p) { 1 } else { 0 });
        kani::cover!(true);
    }

    /// complete_with: the given completion fires exactly once iff (Started, data, enabled);
    /// the guard's own completion never fires (not even from the Drop inside the method).
    #[cfg_attr(kani, kani::proof)]
    fn c05_complete_with_contract() {
        let clk = Clk(None);
        let c1 = Cell::new(0u32);
        let c2 = Cell::new(0u32);
        let p = any_pre();
        let g = any_guard(&clk, &c1, p.phase, p.has_data, p.enabled);
        let r = g.complete_with(Count(&c2));
        assert!(r == should_fire(&p));
        assert!(c1.get() == 0);
        assert!(c2.get() == if should_fire(&p) { 1 } else { 0 });
        kani::cover!(true);
    }

    /// drop: fires exactly once iff (Started, data, enabled).
    #[cfg_attr(kani, kani::proof)]
    fn c05_drop_contract() {
        let clk = Clk(None);
        let c = Cell::new(0u32);
        let p = any_pre();
        {
            let _g = any_guard(&clk, &c, p.phase, p.has_data, p.enabled);
        }
        assert!(c.get() == if should_fire(&p) { 1 } else { 0 });
        kani::cover!(true);
    }

    /// complete_default leaves the guard inert: (Completed, no data, disabled); a second completion
    /// and the final Drop fire nothing - "exactly once".
    #[cfg_attr(kani, kani::proof)]
    fn c05_complete_default_leaves_inert() {
        let clk = Clk(None);
        let c = Cell::new(0u32);
        let p = any_pre();
        let mut g = any_guard(&clk, &c, p.phase, p.has_data, p.enabled);
        let r = g.complete_default();
        assert!(r == should_fire(&p));
        assert!(phase_of(&g) == 2 && g.data.is_none() && !g.is_enabled());
        let r2 = g.complete_default();
        assert!(!r2);
        drop(g);
        assert!(c.get() == if should_fire(&p) { 1 } else { 0 });
        kani::cover!(true);
    }

    // ---- replay table (generated by tools/mktable.py) ----
    pub fn run(name: &str) -> bool {
        match name {
            "c05_start_contract" => c05_start_contract(),
            "c05_with_completion_contract" => c05_with_completion_contract(),
            "c05_with_mdl_name_contract" => c05_with_mdl_name_contract(),
            "c05_map_props_contract" => c05_map_props_contract(),
            "c05_complete_contract" => c05_complete_contract(),
            "c05_complete_with_contract" => c05_complete_with_contract(),
            "c05_drop_contract" => c05_drop_contract(),
            "c05_complete_default_leaves_inert" => c05_complete_default_leaves_inert(),
            _ => return false,
        }
        true
    }
}
