// In-module harnesses for /repo/batcher/src/lib.rs (included by the cfg(kani) hook `mod verif_incrate`).
#[cfg(not(kani))]
include!(concat!(env!("EMIT_RS_EMIT_VERIF_DIR"), "/kani/shim.rs"));
#[cfg(not(kani))]
pub fn set_values(v: Vec<Vec<u8>>) {
    kani::set_values(v)
}
pub use proofs::run;

mod proofs {
    use super::*;
    use std::sync::atomic::{AtomicU8, Ordering};

    /// Retry::next: the counter advances by one and the answer is `current' <= max`; reset zeroes it.
    #[cfg_attr(kani, kani::proof)]
    pub fn c08_retry_contract() {
        let current: u32 = kani::any();
        let max: u32 = kani::any();
        kani::assume(current < u32::MAX);
        let mut r = Retry { current, max };
        let ok = r.next();
        assert!(r.current == current + 1 && r.max == max);
        assert!(ok == (current + 1 <= max));
        r.reset();
        assert!(r.current == 0 && r.max == max);
        let fresh = Retry::new(max);
        assert!(fresh.current == 0 && fresh.max == max);
        kani::cover!(true);
    }

    /// Capacity::next: never panics for ANY idx (wrap-around included), records last_len in slot idx % 32, and
    /// returns at least last_len + 1 (saturating).
    #[cfg_attr(kani, kani::proof)]
    #[cfg_attr(kani, kani::unwind(34))]
    pub fn c08_capacity_contract() {
        let idx: usize = kani::any();
        let last: usize = kani::any();
        let seed: usize = kani::any();
        let mut c = Capacity { rolling_values: [seed; CAPACITY_WINDOW], idx };
        let r = c.next(last);
        assert!(c.idx == idx.wrapping_add(1));
        assert!(c.rolling_values[idx % CAPACITY_WINDOW] == last);
        let m = if last > seed { last } else { seed };
        assert!(r >= last && r >= 1);
        assert!(r == m.saturating_add(if m / 10 > 1 { m / 10 } else { 1 }));
        kani::cover!(true);
    }

    /// Kani compiles with panic=abort and its compiler crashes on the catch_unwind intrinsic (ICE at
    /// kani-compiler/src/intrinsics.rs:243): under Kani `catch_unwind(f)` is `Ok(f())` (trusted stub).
    pub fn stub_catch_unwind<F: FnOnce() -> R + std::panic::UnwindSafe, R>(f: F) -> std::thread::Result<R> {
        Ok(f())
    }

    static FIRED: [AtomicU8; 4] = [AtomicU8::new(0), AtomicU8::new(0), AtomicU8::new(0), AtomicU8::new(0)];

    fn watcher(i: usize) -> Watcher {
        Box::new(move || {
            FIRED[i].fetch_add(1, Ordering::SeqCst);
        })
    }

    /// Watchers (boxed FnOnce callbacks, outside Verus): notify_on_flush fires every on_flush watcher exactly
    /// once and none of the on_take ones, leaves on_flush empty (a second notify fires nothing), and vice versa.
    #[cfg_attr(kani, kani::proof)]
    #[cfg_attr(kani, kani::unwind(4))]
    #[cfg_attr(kani, kani::stub(panic::catch_unwind, stub_catch_unwind))]
    pub fn c07_watchers_notify_contract() {
        let n_flush: usize = kani::any();
        let n_take: usize = kani::any();
        kani::assume(n_flush <= 2 && n_take <= 2);
        let mut w = Watchers::new();
        let mut i = 0;
        while i < n_flush {
            w.push_on_flush(watcher(i));
            i += 1;
        }
        let mut j = 0;
        while j < n_take {
            w.push_on_take(watcher(2 + j));
            j += 1;
        }
        assert!(w.on_flush.len() == n_flush && w.on_take.len() == n_take);
        let flush_first: bool = kani::any();
        if flush_first {
            w.notify_on_flush();
            assert!(w.on_flush.is_empty() && w.on_take.len() == n_take);
            assert!(FIRED[0].load(Ordering::SeqCst) == if n_flush > 0 { 1 } else { 0 });
            assert!(FIRED[1].load(Ordering::SeqCst) == if n_flush > 1 { 1 } else { 0 });
            assert!(FIRED[2].load(Ordering::SeqCst) == 0 && FIRED[3].load(Ordering::SeqCst) == 0);
            w.notify_on_flush();
        } else {
            w.notify_on_take();
            assert!(w.on_take.is_empty() && w.on_flush.len() == n_flush);
            assert!(FIRED[2].load(Ordering::SeqCst) == if n_take > 0 { 1 } else { 0 });
            assert!(FIRED[3].load(Ordering::SeqCst) == if n_take > 1 { 1 } else { 0 });
            assert!(FIRED[0].load(Ordering::SeqCst) == 0 && FIRED[1].load(Ordering::SeqCst) == 0);
            w.notify_on_take();
        }
        w.notify_on_flush();
        w.notify_on_take();
        w.notify_on_flush();
        assert!(FIRED[0].load(Ordering::SeqCst) == if n_flush > 0 { 1 } else { 0 });
        assert!(FIRED[1].load(Ordering::SeqCst) == if n_flush > 1 { 1 } else { 0 });
        assert!(FIRED[2].load(Ordering::SeqCst) == if n_take > 0 { 1 } else { 0 });
        assert!(FIRED[3].load(Ordering::SeqCst) == if n_take > 1 { 1 } else { 0 });
        kani::cover!(true);
    }

    /// Delay::next: min(2 * current + step, max) - never above max, non-decreasing while current <= max; reset = 0.
    #[cfg_attr(kani, kani::proof)]
    pub fn c08_delay_contract() {
        let (cs, cn, ss, sn, ms, mn): (u64, u32, u64, u32, u64, u32) = (kani::any(), kani::any(), kani::any(), kani::any(), kani::any(), kani::any());
        kani::assume(cn < 1_000_000_000 && sn < 1_000_000_000 && mn < 1_000_000_000);
        // the configured values of `bounded()` are far below this: keep 2 * current + step representable
        kani::assume(cs < (1u64 << 60) && ss < (1u64 << 60));
        let (current, step, max) = (Duration::new(cs, cn), Duration::new(ss, sn), Duration::new(ms, mn));
        kani::assume(current <= max);
        let mut d = Delay { current, step, max };
        let r = d.next();
        assert!(r == d.current && d.step == step && d.max == max);
        assert!(r <= max && r >= current);
        assert!(r == core::cmp::min(current * 2 + step, max));
        d.reset();
        assert!(d.current == Duration::ZERO);
        kani::cover!(true);
    }

    // ---- replay table (generated by tools/mktable.py) ----
    pub fn run(name: &str) -> bool {
        match name {
            "c08_retry_contract" => c08_retry_contract(),
            "c08_capacity_contract" => c08_capacity_contract(),
            "c07_watchers_notify_contract" => c07_watchers_notify_contract(),
            "c08_delay_contract" => c08_delay_contract(),
            _ => return false,
        }
        true
    }
}
