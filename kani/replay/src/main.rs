//! Re-executes a Kani counterexample against the real crates: `verif_replay <harness> <values.json>`
//! where values.json is the `concrete_vals` of Kani's concrete playback ([[u8, ...], ...]).
//! Exit 0: the harness ran to its end (the counterexample does NOT reproduce); exit 101: a harness
//! assertion or a panic of the real code fired (REPRODUCED); exit 3: the values do not fit the harness;
//! exit 4: unknown harness.
fn parse(s: &str) -> Vec<Vec<u8>> {
    let mut out = vec![];
    let mut cur: Option<Vec<u8>> = None;
    let mut num = String::new();
    let mut depth = 0;
    for c in s.chars() {
        match c {
            '[' => {
                depth += 1;
                if depth == 2 {
                    cur = Some(vec![]);
                }
            }
            ']' => {
                if depth == 2 {
                    if !num.is_empty() {
                        cur.as_mut().unwrap().push(num.parse().unwrap());
                        num.clear();
                    }
                    out.push(cur.take().unwrap());
                }
                depth -= 1;
            }
            '0'..='9' => num.push(c),
            _ => {
                if !num.is_empty() {
                    if let Some(v) = cur.as_mut() {
                        v.push(num.parse().unwrap());
                    }
                    num.clear();
                }
            }
        }
    }
    out
}

fn main() {
    let args: Vec<String> = std::env::args().collect();
    let name = &args[1];
    let vals = parse(&std::fs::read_to_string(&args[2]).expect("values file"));
    eprintln!("replaying {name} with {} concrete values", vals.len());
    verif_kani_pub::set_values(vals.clone());
    if verif_kani_pub::run(name) {
        println!("REPLAY-COMPLETED: the harness ran to its end without a failing assertion");
        return;
    }
    emit::span::verif_incrate::set_values(vals.clone());
    if emit::span::verif_incrate::run(name) {
        println!("REPLAY-COMPLETED: the harness ran to its end without a failing assertion");
        return;
    }
    emit_batcher::verif_incrate::set_values(vals);
    if emit_batcher::verif_incrate::run(name) {
        println!("REPLAY-COMPLETED: the harness ran to its end without a failing assertion");
        return;
    }
    eprintln!("unknown harness {name}");
    std::process::exit(4);
}
