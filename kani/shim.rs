// Replay shim: lets the SAME harness bodies that Kani verifies run as ordinary code, with every
// `kani::any()` answered from the concrete values of a Kani counterexample (concrete playback).
// Included (not compiled on its own) by the harness crates under cfg(not(kani)).
pub mod kani {
    use std::cell::RefCell;
    use std::collections::VecDeque;
    thread_local! {
        static VALUES: RefCell<VecDeque<Vec<u8>>> = RefCell::new(VecDeque::new());
    }
    pub fn set_values(v: Vec<Vec<u8>>) {
        VALUES.with(|q| *q.borrow_mut() = v.into());
    }
    pub fn remaining() -> usize {
        VALUES.with(|q| q.borrow().len())
    }
    fn next(n: usize) -> Vec<u8> {
        let v = VALUES.with(|q| q.borrow_mut().pop_front());
        match v {
            Some(v) if v.len() == n => v,
            Some(v) => {
                eprintln!("REPLAY-MISMATCH: expected a {n}-byte value, the counterexample has {} bytes", v.len());
                std::process::exit(3)
            }
            None => {
                eprintln!("REPLAY-MISMATCH: the counterexample has no more values");
                std::process::exit(3)
            }
        }
    }
    pub trait Arbitrary: Sized {
        fn any() -> Self;
    }
    macro_rules! int {
        ($($t:ty),*) => {$(impl Arbitrary for $t { fn any() -> Self { let b = next(core::mem::size_of::<$t>()); let mut a = [0u8; core::mem::size_of::<$t>()]; a.copy_from_slice(&b); <$t>::from_le_bytes(a) } })*};
    }
    int!(u8, u16, u32, u64, u128, usize, i8, i16, i32, i64, i128, isize);
    impl Arbitrary for bool {
        fn any() -> Self {
            next(1)[0] & 1 == 1
        }
    }
    impl<T: Arbitrary, const N: usize> Arbitrary for [T; N] {
        fn any() -> Self {
            core::array::from_fn(|_| T::any())
        }
    }
    impl<T: Arbitrary> Arbitrary for Option<T> {
        fn any() -> Self {
            if bool::any() {
                Some(T::any())
            } else {
                None
            }
        }
    }
    pub fn any<T: Arbitrary>() -> T {
        T::any()
    }
    pub fn assume(c: bool) {
        if !c {
            eprintln!("REPLAY-MISMATCH: an assumption of the harness does not hold for the replayed values");
            std::process::exit(3)
        }
    }
    macro_rules! cover {
        ($($t:tt)*) => {};
    }
    pub(crate) use cover;
}
