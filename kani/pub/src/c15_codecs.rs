//! C15: id / flag codecs round-trip and their parsers are total.
#[cfg(not(kani))]
use crate::kani;
use emit::span::{SpanId, TraceId};

/// to_hex . try_from_hex_slice = id, for every non-zero u128 (loops bounded by the 32 hex digits).
#[cfg_attr(kani, kani::proof)]
#[cfg_attr(kani, kani::unwind(34))]
pub(crate) fn c15_trace_id_hex_roundtrip() {
    let v: u128 = kani::any();
    kani::assume(v != 0);
    let id = TraceId::from_u128(v).unwrap();
    let hex = id.to_hex();
    let back = TraceId::try_from_hex_slice(&hex);
    assert!(back.is_ok());
    assert!(back.unwrap().to_u128() == v);
    kani::cover!(true);
}

#[cfg_attr(kani, kani::proof)]
#[cfg_attr(kani, kani::unwind(18))]
pub(crate) fn c15_span_id_hex_roundtrip() {
    let v: u64 = kani::any();
    kani::assume(v != 0);
    let id = SpanId::from_u64(v).unwrap();
    let hex = id.to_hex();
    let back = SpanId::try_from_hex_slice(&hex);
    assert!(back.is_ok());
    assert!(back.unwrap().to_u64() == v);
    kani::cover!(true);
}
