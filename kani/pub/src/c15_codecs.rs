//! C15: id / flag / traceparent codecs round-trip and their parsers are total.
#[cfg(not(kani))]
use crate::kani;
use emit::span::{SpanId, TraceId};
use emit_traceparent::{TraceFlags, Traceparent};

fn is_hex(b: u8) -> bool {
    matches!(b, b'0'..=b'9' | b'a'..=b'f' | b'A'..=b'F')
}
fn lower(b: u8) -> u8 {
    if b >= b'A' && b <= b'Z' {
        b + 32
    } else {
        b
    }
}

/// to_hex . try_from_hex_slice = id, for every non-zero u128 (loops bounded by the 32 hex digits).
#[cfg_attr(kani, kani::proof)]
#[cfg_attr(kani, kani::unwind(34))]
pub(crate) fn c15_trace_id_hex_roundtrip() {
    let v: u128 = kani::any();
    kani::assume(v != 0);
    let id = TraceId::from_u128(v).unwrap();
    let hex = id.to_hex();
    let back = TraceId::try_from_hex_slice(&hex);
    assert!(back.is_ok());
    assert!(back.unwrap().to_u128() == v);
    kani::cover!(true);
}

#[cfg_attr(kani, kani::proof)]
#[cfg_attr(kani, kani::unwind(18))]
pub(crate) fn c15_span_id_hex_roundtrip() {
    let v: u64 = kani::any();
    kani::assume(v != 0);
    let id = SpanId::from_u64(v).unwrap();
    let hex = id.to_hex();
    let back = SpanId::try_from_hex_slice(&hex);
    assert!(back.is_ok());
    assert!(back.unwrap().to_u64() == v);
    kani::cover!(true);
}

/// try_from_hex_slice is total on EVERY byte slice of length 0..=33 and accepts exactly 32 hex digits that are
/// not all zero; an accepted text formats back to its lower-cased self.
#[cfg_attr(kani, kani::proof)]
#[cfg_attr(kani, kani::unwind(35))]
pub(crate) fn c15_trace_id_parse_total() {
    let buf: [u8; 33] = kani::any();
    let len: usize = kani::any();
    kani::assume(len <= 33);
    let r = TraceId::try_from_hex_slice(&buf[..len]);
    let mut all_hex = true;
    let mut all_zero = true;
    let mut i = 0;
    while i < 32 {
        if i < len {
            if !is_hex(buf[i]) {
                all_hex = false;
            }
            if buf[i] != b'0' {
                all_zero = false;
            }
        }
        i += 1;
    }
    assert!(r.is_ok() == (len == 32 && all_hex && !all_zero));
    if let Ok(id) = r {
        let out = id.to_hex();
        let mut i = 0;
        while i < 32 {
            assert!(out[i] == lower(buf[i]));
            i += 1;
        }
    }
    kani::cover!(true);
}

#[cfg_attr(kani, kani::proof)]
#[cfg_attr(kani, kani::unwind(19))]
pub(crate) fn c15_span_id_parse_total() {
    let buf: [u8; 17] = kani::any();
    let len: usize = kani::any();
    kani::assume(len <= 17);
    let r = SpanId::try_from_hex_slice(&buf[..len]);
    let mut all_hex = true;
    let mut all_zero = true;
    let mut i = 0;
    while i < 16 {
        if i < len {
            if !is_hex(buf[i]) {
                all_hex = false;
            }
            if buf[i] != b'0' {
                all_zero = false;
            }
        }
        i += 1;
    }
    assert!(r.is_ok() == (len == 16 && all_hex && !all_zero));
    if let Ok(id) = r {
        let out = id.to_hex();
        let mut i = 0;
        while i < 16 {
            assert!(out[i] == lower(buf[i]));
            i += 1;
        }
    }
    kani::cover!(true);
}

/// TraceFlags: all 256 values round-trip through their 2 hex digits; is_sampled is bit 0.
#[cfg_attr(kani, kani::proof)]
pub(crate) fn c15_trace_flags_roundtrip() {
    let v: u8 = kani::any();
    let f = TraceFlags::from_u8(v);
    assert!(f.to_u8() == v);
    assert!(f.is_sampled() == (v & 1 == 1));
    let hex = f.to_hex();
    assert!(is_hex(hex[0]) && is_hex(hex[1]) && lower(hex[0]) == hex[0] && lower(hex[1]) == hex[1]);
    let back = TraceFlags::try_from_hex_slice(&hex);
    assert!(back.is_ok());
    assert!(back.unwrap().to_u8() == v);
    kani::cover!(true);
}

/// TraceFlags::try_from_hex_slice is total on EVERY slice of length 0..=3 and accepts exactly two hex digits.
#[cfg_attr(kani, kani::proof)]
pub(crate) fn c15_trace_flags_parse_total() {
    let buf: [u8; 3] = kani::any();
    let len: usize = kani::any();
    kani::assume(len <= 3);
    let r = TraceFlags::try_from_hex_slice(&buf[..len]);
    assert!(r.is_ok() == (len == 2 && is_hex(buf[0]) && is_hex(buf[1])));
    if let Ok(f) = r {
        let out = f.to_hex();
        assert!(out[0] == lower(buf[0]) && out[1] == lower(buf[1]));
    }
    kani::cover!(true);
}

// NOTE: a harness with only the two version bytes of an otherwise fixed valid header symbolic was tried for the
// `let b"00" = version else` check (which the Verus unit traceparent_parse has to restate): CBMC does not finish
// in 15 minutes (the error paths build Strings with format!). The version literal is covered by tools/lints.py.
