//! C03 (frame layer only): a frame is entered and exited exactly once around its scope, in that order, on
//! the same frame value; closed exactly once when dropped; forwarding contexts forward every operation once.
#[cfg(not(kani))]
use crate::kani;
use crate::oracles::*;
use core::future::Future;
use core::pin::Pin;
use core::task::{Context, Poll};
use emit::{ctxt::ErasedCtxt, Ctxt, Frame, Props};

const OPEN: u8 = 1 + 16;
const ENTER: u8 = 2 + 16;
const EXIT: u8 = 3 + 16;
const CLOSE: u8 = 4 + 16;
const SCOPE: u8 = 9;

fn expect(c: &OracleCtxt, want: &[u8]) {
    let (log, n) = c.ops();
    assert!(n == want.len());
    let mut i = 0;
    while i < want.len() {
        assert!(log[i] == want[i]);
        i += 1;
    }
}

/// Frame::{root, push, disabled} + call: open, enter, scope, exit, close - once each, in that order; what the
/// context is asked to open is: root = own props only; push = own ++ current (default open_push);
/// disabled = current only (default open_disabled = open_push(Empty)).
#[cfg_attr(kani, kani::proof)]
#[cfg_attr(kani, kani::unwind(10))]
pub(crate) fn c03_frame_call_contract() {
    let v: u64 = kani::any();
    let amb: u64 = kani::any();
    let c = OracleCtxt::new(kani::any(), amb);
    let kind: u8 = kani::any();
    kani::assume(kind <= 2);
    let props = [("p", v)];
    let frame = match kind {
        0 => Frame::root(&c, &props),
        1 => Frame::push(&c, &props),
        _ => Frame::disabled(&c, &props),
    };
    assert!(c.root_seen.get() == match kind { 0 => (Some(v), None), 1 => (Some(v), Some(amb)), _ => (None, Some(amb)) });
    expect(&c, &[OPEN]);
    let r = frame.call(|| {
        c.mark();
        42u8
    });
    assert!(r == 42);
    expect(&c, &[OPEN, ENTER, SCOPE, EXIT, CLOSE]);
    kani::cover!(true);
}

/// enter()/guard drop can be repeated (a future polled many times); with() is enter+current+exit;
/// into_parts / from_parts do not close; dropping the frame closes it exactly once.
#[cfg_attr(kani, kani::proof)]
#[cfg_attr(kani, kani::unwind(10))]
pub(crate) fn c03_frame_enter_guard_contract() {
    let c = OracleCtxt::new(kani::any(), kani::any());
    let mut frame = Frame::root(&c, emit::Empty);
    {
        let _g = frame.enter();
        c.mark();
    }
    expect(&c, &[OPEN, ENTER, SCOPE, EXIT]);
    let n = frame.with(|cur| cur.pull::<u64, _>("amb"));
    assert!(n == Some(c.current[1].1));
    expect(&c, &[OPEN, ENTER, SCOPE, EXIT, ENTER, EXIT]);
    let (cc, inner) = frame.into_parts();
    expect(&c, &[OPEN, ENTER, SCOPE, EXIT, ENTER, EXIT]);
    let frame = Frame::from_parts(cc, inner);
    drop(frame);
    expect(&c, &[OPEN, ENTER, SCOPE, EXIT, ENTER, EXIT, CLOSE]);
    kani::cover!(true);
}

#[cfg(kani)]
fn any_panicking() -> bool {
    kani::any()
}

/// The guard's Drop exits the frame whether or not the thread is panicking (`std::thread::panicking()` answers an
/// arbitrary boolean): leaving a frame by unwinding runs exactly this Drop, so an "if panicking { return }" guard
/// in it would leave the frame's properties ambient after a caught panic. (Unwinding itself is not modelled.)
#[cfg_attr(kani, kani::proof)]
#[cfg_attr(kani, kani::unwind(10))]
#[cfg_attr(kani, kani::stub(std::thread::panicking, any_panicking))]
pub(crate) fn c03_enter_guard_drop_exits_when_panicking() {
    let c = OracleCtxt::new(kani::any(), kani::any());
    let mut frame = Frame::root(&c, emit::Empty);
    {
        let _g = frame.enter();
        c.mark();
    }
    expect(&c, &[OPEN, ENTER, SCOPE, EXIT]);
    drop(frame);
    expect(&c, &[OPEN, ENTER, SCOPE, EXIT, CLOSE]);
    kani::cover!(true);
}

struct Oracle2<'a> {
    c: &'a OracleCtxt,
    ready_first: bool,
    polls: u8,
}
impl<'a> Future for Oracle2<'a> {
    type Output = u8;
    fn poll(mut self: Pin<&mut Self>, _: &mut Context<'_>) -> Poll<u8> {
        self.c.mark();
        self.polls += 1;
        if self.ready_first || self.polls >= 2 {
            Poll::Ready(5)
        } else {
            Poll::Pending
        }
    }
}

/// FrameFuture::poll: enter, inner poll, exit - for ONE poll whatever it returns; a suspended future leaves the
/// frame exited between polls; the frame is closed once when the future is dropped.
#[cfg_attr(kani, kani::proof)]
#[cfg_attr(kani, kani::unwind(10))]
pub(crate) fn c03_frame_future_poll_contract() {
    let c = OracleCtxt::new(kani::any(), kani::any());
    let ready_first: bool = kani::any();
    let mut fut = Frame::root(&c, emit::Empty).in_future(Oracle2 { c: &c, ready_first, polls: 0 });
    let mut cx = Context::from_waker(core::task::Waker::noop());
    let mut fut = unsafe { Pin::new_unchecked(&mut fut) };
    let p1 = fut.as_mut().poll(&mut cx);
    expect(&c, &[OPEN, ENTER, SCOPE, EXIT]);
    assert!(p1.is_ready() == ready_first);
    if !ready_first {
        let p2 = fut.as_mut().poll(&mut cx);
        assert!(p2 == Poll::Ready(5));
        expect(&c, &[OPEN, ENTER, SCOPE, EXIT, ENTER, SCOPE, EXIT]);
    }
    kani::cover!(true);
}

/// An inner future that never completes and records (as a SCOPE mark) the moment it is dropped.
struct DropMark<'a> {
    c: &'a OracleCtxt,
}
impl<'a> Future for DropMark<'a> {
    type Output = u8;
    fn poll(self: Pin<&mut Self>, _: &mut Context<'_>) -> Poll<u8> {
        Poll::Pending
    }
}
impl<'a> Drop for DropMark<'a> {
    fn drop(&mut self) {
        self.c.mark();
    }
}

/// A FrameFuture dropped before it completes (a cancelled async span) - polled once or not at all - drops its
/// inner future INSIDE the frame: enter, <inner drop>, exit, and only then close; each once, in that order.
#[cfg_attr(kani, kani::proof)]
#[cfg_attr(kani, kani::unwind(12))]
pub(crate) fn c03_frame_future_drop_contract() {
    let c = OracleCtxt::new(kani::any(), kani::any());
    let polled: bool = kani::any();
    {
        let mut fut = Frame::root(&c, emit::Empty).in_future(DropMark { c: &c });
        if polled {
            let mut cx = Context::from_waker(core::task::Waker::noop());
            let mut pinned = unsafe { Pin::new_unchecked(&mut fut) };
            assert!(pinned.as_mut().poll(&mut cx).is_pending());
            expect(&c, &[OPEN, ENTER, EXIT]);
        } else {
            expect(&c, &[OPEN]);
        }
    }
    if polled {
        expect(&c, &[OPEN, ENTER, EXIT, ENTER, SCOPE, EXIT, CLOSE]);
    } else {
        expect(&c, &[OPEN, ENTER, SCOPE, EXIT, CLOSE]);
    }
    kani::cover!(true);
}

fn drive<C: Ctxt>(c: C) -> Option<u64> {
    let mut f = c.open_root(emit::Empty);
    c.enter(&mut f);
    let r = c.with_current(|cur| cur.pull::<u64, _>("amb"));
    c.exit(&mut f);
    c.close(f);
    r
}

/// &C and Option<C> forward every operation exactly once, to the same frame, and show the inner context's
/// current properties; a None context is inert.
#[cfg_attr(kani, kani::proof)]
#[cfg_attr(kani, kani::unwind(10))]
pub(crate) fn c03_ctxt_ref_option_forwarders() {
    let amb: u64 = kani::any();
    if kani::any() {
        let c = OracleCtxt::new(kani::any(), amb);
        assert!(drive(&c) == Some(amb));
        expect(&c, &[OPEN, ENTER, EXIT, CLOSE]);
    } else {
        let c = Some(OracleCtxt::new(kani::any(), amb));
        assert!(drive(&c) == Some(amb));
        expect(c.as_ref().unwrap(), &[OPEN, ENTER, EXIT, CLOSE]);
    }
    let none: Option<OracleCtxt> = None;
    assert!(drive(&none) == None);
    kani::cover!(true);
}

/// Box<C> forwards every operation exactly once, in order, to the same frame (scalar phase oracle).
#[cfg_attr(kani, kani::proof)]
#[cfg_attr(kani, kani::unwind(10))]
pub(crate) fn c03_ctxt_box_forwarder() {
    let amb: u64 = kani::any();
    let c = Box::new(PhaseCtxt::new(amb));
    assert!(drive(&c) == Some(amb));
    assert!(c.phase.get() == 4);
    kani::cover!(true);
}

/// Arc<C> forwards every operation exactly once, in order, to the same frame (scalar phase oracle).
#[cfg_attr(kani, kani::proof)]
#[cfg_attr(kani, kani::unwind(10))]
pub(crate) fn c03_ctxt_arc_forwarder() {
    let amb: u64 = kani::any();
    let c = std::sync::Arc::new(PhaseCtxt::new(amb));
    assert!(drive(c.clone()) == Some(amb));
    assert!(c.phase.get() == 4);
    kani::cover!(true);
}

/// dyn ErasedCtxt with the frame stored INLINE in ErasedFrame (1 byte): same operations, same frame.
#[cfg_attr(kani, kani::proof)]
#[cfg_attr(kani, kani::unwind(10))]
pub(crate) fn c03_erased_ctxt_inline_frame() {
    let amb: u64 = kani::any();
    let c = OracleCtxt::new(kani::any(), amb);
    let e: &dyn ErasedCtxt = &c;
    assert!(drive(e) == Some(amb));
    expect(&c, &[OPEN, ENTER, EXIT, CLOSE]);
    kani::cover!(true);
}

/// dyn ErasedCtxt with the frame BOXED by ErasedFrame (40 bytes): same operations, same frame, payload intact.
#[cfg_attr(kani, kani::proof)]
#[cfg_attr(kani, kani::unwind(10))]
pub(crate) fn c03_erased_ctxt_boxed_frame() {
    let amb: u64 = kani::any();
    let c = BigCtxt(OracleCtxt::new(kani::any(), amb));
    let e: &dyn ErasedCtxt = &c;
    assert!(drive(e) == Some(amb));
    expect(&c.0, &[OPEN, ENTER, EXIT, CLOSE]);
    kani::cover!(true);
}

/// Every forwarding context - &C, Option<C>, Box<C>, Arc<C>, AssertInternal<C> and dyn ErasedCtxt - dispatches open_root, open_push and
/// open_disabled to the SAME method of the inner context, with the same properties ("a disabled frame adds
/// nothing" must not become a push on the erased path the shared runtime uses).
/// `emit::runtime::AssertInternal<C>` (core/src/runtime.rs:419) is the sixth path: before /repo 9263e12 (finding F27) it had
/// no `open_disabled` member and fell back to the trait default `open_push(Empty)` on the WRAPPER (opened == 2, p == None).
#[cfg_attr(kani, kani::proof)]
#[cfg_attr(kani, kani::unwind(6))]
pub(crate) fn c03_open_dispatch_contract() {
    let v: u64 = kani::any();
    let kind: u8 = kani::any();
    kani::assume(kind >= 1 && kind <= 3);
    let via: u8 = kani::any();
    kani::assume(via <= 5);
    let c = KindCtxt::new();
    let props = [("p", v)];
    fn open<C: Ctxt>(c: C, kind: u8, props: &[(&'static str, u64); 1]) {
        let f = match kind {
            1 => c.open_root(props),
            2 => c.open_push(props),
            _ => c.open_disabled(props),
        };
        c.close(f);
    }
    match via {
        0 => open(&c, kind, &props),
        1 => {
            let e: &dyn ErasedCtxt = &c;
            open(e, kind, &props)
        }
        2 => {
            let o = Some(&c);
            open(&o, kind, &props)
        }
        3 => {
            let b = Box::new(&c);
            open(&b, kind, &props)
        }
        4 => {
            let a = std::sync::Arc::new(&c);
            open(a.clone(), kind, &props)
        }
        _ => {
            let a = emit::runtime::AssertInternal(&c);
            open(&a, kind, &props)
        }
    }
    assert!(c.opened.get() == kind);
    assert!(c.p.get() == Some(v));
    kani::cover!(true);
}
