//! C01: an event is emitted iff the effective filter accepts the fully built event.
#[cfg(not(kani))]
use crate::kani;
use crate::oracles::*;
use emit::{Emitter, Event, Extent, Filter, Path, Props, Template};

fn any_extent() -> Option<Extent> {
    let kind: u8 = kani::any();
    kani::assume(kind <= 2);
    match kind {
        0 => None,
        1 => Some(Extent::point(any_ts())),
        _ => Some(Extent::range(any_ts()..any_ts())),
    }
}
fn expect_extent(own: &Option<Extent>, clock: Option<emit::Timestamp>) -> (Option<emit::Timestamp>, Option<emit::Timestamp>, bool) {
    match own {
        Some(x) => match x.as_range() {
            Some(r) => (Some(r.start), Some(r.end), true),
            None => (None, Some(*x.as_point()), false),
        },
        None => (None, clock, false),
    }
}

/// emit_core::emit: the filter is consulted exactly once and is shown the event exactly as the emitter would see
/// it (own property wins over the ambient one under the same key, ambient-only key visible, own extent else the
/// clock's reading); the emitter receives exactly that event, once, iff the filter accepted.
#[cfg_attr(kani, kani::proof)]
#[cfg_attr(kani, kani::unwind(6))]
pub(crate) fn c01_emit_core_contract() {
    let v_own: u64 = kani::any();
    let v_amb_k: u64 = kani::any();
    let v_amb: u64 = kani::any();
    let answer: bool = kani::any();
    let own_extent = any_extent();
    let clock = OracleClock { calls: core::cell::Cell::new(0), now: any_opt_ts() };
    let ctxt = OracleCtxt::new(v_amb_k, v_amb);
    let filter = OracleFilter::new(answer);
    let emitter = OracleEmitter::new();
    let props = [("k", v_own)];
    let evt = Event::new(Path::new_raw("m"), Template::literal("t"), own_extent.clone(), &props);

    emit_core::emit(&emitter, &filter, &ctxt, &clock, &evt);

    let (s, e, r) = expect_extent(&own_extent, clock.now);
    let expected = Seen { k: Some(v_own), amb: Some(v_amb), start: s, end: e, is_range: r, mdl_is_m: true };
    assert!(filter.calls.get() == 1);
    assert!(filter.seen.get() == expected);
    assert!(emitter.calls.get() == if answer { 1 } else { 0 });
    if answer {
        assert!(emitter.seen.get() == expected);
    }
    assert!(ctxt.with_current_calls.get() == 1);
    // the clock is only read when the event has no extent of its own
    assert!(clock.calls.get() == if own_extent.is_none() { 1 } else { 0 });
    kani::cover!(true);
}

/// Runtime::emit and the Emitter impl of Runtime are the same pipeline over the runtime's components;
/// emitting straight to `rt.emitter()` bypasses filter, ambient properties and clock.
#[cfg_attr(kani, kani::proof)]
#[cfg_attr(kani, kani::unwind(6))]
pub(crate) fn c01_runtime_emit_contract() {
    let v_own: u64 = kani::any();
    let v_amb: u64 = kani::any();
    let answer: bool = kani::any();
    let now = any_opt_ts();
    let rt = emit::runtime::Runtime::build(
        OracleEmitter::new(),
        OracleFilter::new(answer),
        OracleCtxt::new(kani::any(), v_amb),
        OracleClock { calls: core::cell::Cell::new(0), now },
        emit::Empty,
    );
    let props = [("k", v_own)];
    let evt = Event::new(Path::new_raw("m"), Template::literal("t"), emit::Empty, &props);
    if kani::any() {
        rt.emit(&evt);
    } else {
        Emitter::emit(&rt, &evt);
    }
    let expected = Seen { k: Some(v_own), amb: Some(v_amb), start: None, end: now, is_range: false, mdl_is_m: true };
    assert!(rt.filter().calls.get() == 1 && rt.filter().seen.get() == expected);
    assert!(rt.emitter().calls.get() == if answer { 1 } else { 0 });
    if answer {
        assert!(rt.emitter().seen.get() == expected);
    }
    // direct emission: no filter, no ambient key, no clock extent
    let before = rt.emitter().calls.get();
    rt.emitter().emit(&evt);
    assert!(rt.emitter().calls.get() == before + 1);
    assert!(rt.filter().calls.get() == 1);
    assert!(rt.emitter().seen.get() == Seen { k: Some(v_own), amb: None, start: None, end: None, is_range: false, mdl_is_m: true });
    kani::cover!(true);
}

/// The macro entry point: with a call-site `when` filter the runtime's filter is NOT consulted, without one it is.
#[cfg_attr(kani, kani::proof)]
#[cfg_attr(kani, kani::unwind(6))]
pub(crate) fn c01_private_emit_when_contract() {
    let v_own: u64 = kani::any();
    let v_base: u64 = kani::any();
    let v_amb: u64 = kani::any();
    let rt_answer: bool = kani::any();
    let when_answer: bool = kani::any();
    let has_when: bool = kani::any();
    let now = any_opt_ts();
    let rt = emit::runtime::Runtime::build(
        OracleEmitter::new(),
        OracleFilter::new(rt_answer),
        OracleCtxt::new(kani::any(), v_amb),
        OracleClock { calls: core::cell::Cell::new(0), now },
        emit::Empty,
    );
    let when = OracleFilter::new(when_answer);
    let props = [("k", v_own)];
    let base = [("k", v_base)];
    emit::__private::__private_emit(
        &rt,
        &emit::Path::new_raw("m"),
        if has_when { Some(&when) } else { None },
        &emit::Empty,
        &Template::literal("t"),
        &base,
        &props,
    );
    let expected = Seen { k: Some(v_own), amb: Some(v_amb), start: None, end: now, is_range: false, mdl_is_m: true };
    let effective = if has_when { when_answer } else { rt_answer };
    if has_when {
        assert!(when.calls.get() == 1 && rt.filter().calls.get() == 0);
        assert!(when.seen.get() == expected);
    } else {
        assert!(when.calls.get() == 0 && rt.filter().calls.get() == 1);
        assert!(rt.filter().seen.get() == expected);
    }
    assert!(rt.emitter().calls.get() == if effective { 1 } else { 0 });
    if effective {
        assert!(rt.emitter().seen.get() == expected);
    }
    kani::cover!(true);
}

/// The `emit!(.., evt: e, ..)` entry point, one shape of the call (which property layers exist and whether a
/// template override is given are CONCRETE per harness: a symbolic `Option<&Template>` or symbolic layers cost CBMC
/// more than 5 minutes; values, extent, clock reading, both filters' answers and the presence of `when` are symbolic):
/// the effective filter (the call-site `when` if given, else the runtime's) is consulted exactly ONCE, on the fully
/// built event - `expected_k` under the shared key "k", the ambient-only key visible, the expected template, the
/// event's own extent if it has one and otherwise the clock's reading - and the emitter receives exactly that
/// event, once, iff the filter accepted. The other filter is never consulted; the ambient context is read once and
/// the clock only when the event has no extent of its own.
fn private_emit_event_shape<CP: Props, EP: Props>(call_props: CP, evt_props: EP, expected_k: u64, v_amb_k: u64, override_tpl: bool) {
    let v_amb: u64 = kani::any();
    let rt_answer: bool = kani::any();
    let when_answer: bool = kani::any();
    let has_when: bool = kani::any();
    let own_extent = any_extent();
    let now = any_opt_ts();
    let rt = emit::runtime::Runtime::build(
        TplEmitter::new(),
        TplFilter::new(rt_answer),
        OracleCtxt::new(v_amb_k, v_amb),
        OracleClock { calls: core::cell::Cell::new(0), now },
        emit::Empty,
    );
    let when = TplFilter::new(when_answer);
    let tpl_override = Template::literal(TPL_U);
    let evt = Event::new(Path::new_raw("m"), Template::literal(TPL_T), own_extent.clone(), &evt_props);

    emit::__private::__private_emit_event(
        &rt,
        if has_when { Some(&when) } else { None },
        &evt,
        if override_tpl { Some(&tpl_override) } else { None },
        &call_props,
    );

    let (s, e, r) = expect_extent(&own_extent, now);
    let expected = Seen { k: Some(expected_k), amb: Some(v_amb), start: s, end: e, is_range: r, mdl_is_m: true };
    let expected_tpl = if override_tpl { 2 } else { 1 };
    let effective = if has_when { when_answer } else { rt_answer };
    let (used, unused) = if has_when { (&when, rt.filter()) } else { (rt.filter(), &when) };
    assert!(used.inner.calls.get() == 1);
    assert!(unused.inner.calls.get() == 0);
    assert!(used.inner.seen.get() == expected);
    assert!(used.tpl.get() == expected_tpl);
    assert!(rt.emitter().inner.calls.get() == if effective { 1 } else { 0 });
    if effective {
        assert!(rt.emitter().inner.seen.get() == expected);
        assert!(rt.emitter().tpl.get() == expected_tpl);
    }
    assert!(rt.ctxt().with_current_calls.get() == 1);
    assert!(rt.clock().calls.get() == if own_extent.is_none() { 1 } else { 0 });
}

/// `emit!(evt: e, "u", k: v_call)`: the macro invocation's property wins over the event's own and the ambient one
/// under the same key, and the template override is in place when the filter looks.
#[cfg_attr(kani, kani::proof)]
#[cfg_attr(kani, kani::unwind(6))]
pub(crate) fn c01_private_emit_event_when_contract() {
    let v_call: u64 = kani::any();
    let v_evt: u64 = kani::any();
    private_emit_event_shape([("k", v_call)], [("k", v_evt)], v_call, kani::any(), true);
    kani::cover!(true);
}

/// `emit!(evt: e)` without properties or template of its own: the event's own property wins over the ambient one
/// under the same key and the event keeps its template.
#[cfg_attr(kani, kani::proof)]
#[cfg_attr(kani, kani::unwind(6))]
pub(crate) fn c01_private_emit_event_own_props_contract() {
    let v_evt: u64 = kani::any();
    private_emit_event_shape(emit::Empty, [("k", v_evt)], v_evt, kani::any(), false);
    kani::cover!(true);
}
