//! C01: an event is emitted iff the effective filter accepts the fully built event.
#[cfg(not(kani))]
use crate::kani;
use crate::oracles::*;
use emit::{Emitter, Event, Extent, Filter, Path, Props, Template};

fn any_extent() -> Option<Extent> {
    let kind: u8 = kani::any();
    kani::assume(kind <= 2);
    match kind {
        0 => None,
        1 => Some(Extent::point(any_ts())),
        _ => Some(Extent::range(any_ts()..any_ts())),
    }
}
fn expect_extent(own: &Option<Extent>, clock: Option<emit::Timestamp>) -> (Option<emit::Timestamp>, Option<emit::Timestamp>, bool) {
    match own {
        Some(x) => match x.as_range() {
            Some(r) => (Some(r.start), Some(r.end), true),
            None => (None, Some(*x.as_point()), false),
        },
        None => (None, clock, false),
    }
}

/// emit_core::emit: the filter is consulted exactly once and is shown the event exactly as the emitter would see
/// it (own property wins over the ambient one under the same key, ambient-only key visible, own extent else the
/// clock's reading); the emitter receives exactly that event, once, iff the filter accepted.
#[cfg_attr(kani, kani::proof)]
#[cfg_attr(kani, kani::unwind(6))]
pub(crate) fn c01_emit_core_contract() {
    let v_own: u64 = kani::any();
    let v_amb_k: u64 = kani::any();
    let v_amb: u64 = kani::any();
    let answer: bool = kani::any();
    let own_extent = any_extent();
    let clock = OracleClock { calls: core::cell::Cell::new(0), now: any_opt_ts() };
    let ctxt = OracleCtxt::new(v_amb_k, v_amb);
    let filter = OracleFilter::new(answer);
    let emitter = OracleEmitter::new();
    let props = [("k", v_own)];
    let evt = Event::new(Path::new_raw("m"), Template::literal("t"), own_extent.clone(), &props);

    emit_core::emit(&emitter, &filter, &ctxt, &clock, &evt);

    let (s, e, r) = expect_extent(&own_extent, clock.now);
    let expected = Seen { k: Some(v_own), amb: Some(v_amb), start: s, end: e, is_range: r, mdl_is_m: true };
    assert!(filter.calls.get() == 1);
    assert!(filter.seen.get() == expected);
    assert!(emitter.calls.get() == if answer { 1 } else { 0 });
    if answer {
        assert!(emitter.seen.get() == expected);
    }
    assert!(ctxt.with_current_calls.get() == 1);
    // the clock is only read when the event has no extent of its own
    assert!(clock.calls.get() == if own_extent.is_none() { 1 } else { 0 });
    kani::cover!(true);
}

/// Runtime::emit and the Emitter impl of Runtime are the same pipeline over the runtime's components;
/// emitting straight to `rt.emitter()` bypasses filter, ambient properties and clock.
#[cfg_attr(kani, kani::proof)]
#[cfg_attr(kani, kani::unwind(6))]
pub(crate) fn c01_runtime_emit_contract() {
    let v_own: u64 = kani::any();
    let v_amb: u64 = kani::any();
    let answer: bool = kani::any();
    let now = any_opt_ts();
    let rt = emit::runtime::Runtime::build(
        OracleEmitter::new(),
        OracleFilter::new(answer),
        OracleCtxt::new(kani::any(), v_amb),
        OracleClock { calls: core::cell::Cell::new(0), now },
        emit::Empty,
    );
    let props = [("k", v_own)];
    let evt = Event::new(Path::new_raw("m"), Template::literal("t"), emit::Empty, &props);
    if kani::any() {
        rt.emit(&evt);
    } else {
        Emitter::emit(&rt, &evt);
    }
    let expected = Seen { k: Some(v_own), amb: Some(v_amb), start: None, end: now, is_range: false, mdl_is_m: true };
    assert!(rt.filter().calls.get() == 1 && rt.filter().seen.get() == expected);
    assert!(rt.emitter().calls.get() == if answer { 1 } else { 0 });
    if answer {
        assert!(rt.emitter().seen.get() == expected);
    }
    // direct emission: no filter, no ambient key, no clock extent
    let before = rt.emitter().calls.get();
    rt.emitter().emit(&evt);
    assert!(rt.emitter().calls.get() == before + 1);
    assert!(rt.filter().calls.get() == 1);
    assert!(rt.emitter().seen.get() == Seen { k: Some(v_own), amb: None, start: None, end: None, is_range: false, mdl_is_m: true });
    kani::cover!(true);
}

/// The macro entry point: with a call-site `when` filter the runtime's filter is NOT consulted, without one it is.
#[cfg_attr(kani, kani::proof)]
#[cfg_attr(kani, kani::unwind(6))]
pub(crate) fn c01_private_emit_when_contract() {
    let v_own: u64 = kani::any();
    let v_base: u64 = kani::any();
    let v_amb: u64 = kani::any();
    let rt_answer: bool = kani::any();
    let when_answer: bool = kani::any();
    let has_when: bool = kani::any();
    let now = any_opt_ts();
    let rt = emit::runtime::Runtime::build(
        OracleEmitter::new(),
        OracleFilter::new(rt_answer),
        OracleCtxt::new(kani::any(), v_amb),
        OracleClock { calls: core::cell::Cell::new(0), now },
        emit::Empty,
    );
    let when = OracleFilter::new(when_answer);
    let props = [("k", v_own)];
    let base = [("k", v_base)];
    emit::__private::__private_emit(
        &rt,
        &emit::Path::new_raw("m"),
        if has_when { Some(&when) } else { None },
        &emit::Empty,
        &Template::literal("t"),
        &base,
        &props,
    );
    let expected = Seen { k: Some(v_own), amb: Some(v_amb), start: None, end: now, is_range: false, mdl_is_m: true };
    let effective = if has_when { when_answer } else { rt_answer };
    if has_when {
        assert!(when.calls.get() == 1 && rt.filter().calls.get() == 0);
        assert!(when.seen.get() == expected);
    } else {
        assert!(when.calls.get() == 0 && rt.filter().calls.get() == 1);
        assert!(rt.filter().seen.get() == expected);
    }
    assert!(rt.emitter().calls.get() == if effective { 1 } else { 0 });
    if effective {
        assert!(rt.emitter().seen.get() == expected);
    }
    kani::cover!(true);
}
