//! Kani harnesses over the public API of the real emit crates (path dependencies on /repo).
//! Every harness ends with `kani::cover!(true)` (vacuity guard). Harnesses are registered in
//! ../harnesses.json with the property they serve and whether they are complete or bounded.
//! Without cfg(kani) the same bodies compile against the replay shim (../shim.rs): `kani::any()` is
//! answered from the concrete values of a Kani counterexample, so a counterexample is re-executed
//! against the real crates (see ../replay).
#![allow(unused)]
#[cfg(not(kani))]
include!("../../shim.rs");
mod oracles;
mod c01_emitters;
mod c01_pipeline;
mod c02_props;
mod c03_frames;
mod c05_spans;
mod c15_codecs;
mod c20_slot;
#[cfg(not(kani))]
mod table;
#[cfg(not(kani))]
pub use table::run;
#[cfg(not(kani))]
pub fn set_values(v: Vec<Vec<u8>>) {
    kani::set_values(v)
}
