//! Kani harnesses over the public API of the real emit crates (path dependencies on /repo).
//! Every harness ends with `kani::cover!(true)` (vacuity guard). Harnesses are registered in
//! ../harnesses.json with the property they serve and whether they are complete or bounded.
#![allow(unused)]
#[cfg(kani)]
mod oracles;
#[cfg(kani)]
mod c01_pipeline;
#[cfg(kani)]
mod c01_emitters;
#[cfg(kani)]
mod c15_codecs;
#[cfg(kani)]
mod c03_frames;
