//! C19 (partial: the default capture mode on primitives and the optional capture): a number / boolean captured at
//! a call site by the macro hooks is pulled back downstream as the same typed value; an optional capture of None
//! contributes no property. Structure-preserving modes (serde / sval), Debug/Display formatting and error chains
//! live in value-bag / serde / sval and are NOT decided.
#[cfg(not(kani))]
use crate::kani;
use emit::__private::{__PrivateCaptureHook, __PrivateOptionalCaptureHook, __PrivateOptionalMapHook};

#[cfg_attr(kani, kani::proof)]
pub(crate) fn c19_capture_default_integers() {
    let a: u64 = kani::any();
    let b: i64 = kani::any();
    let c: u8 = kani::any();
    let d: i32 = kani::any();
    let e: bool = kani::any();
    assert!(a.__private_capture_as_default().unwrap().cast::<u64>() == Some(a));
    assert!(b.__private_capture_as_default().unwrap().cast::<i64>() == Some(b));
    assert!(c.__private_capture_as_default().unwrap().cast::<u8>() == Some(c));
    assert!(d.__private_capture_as_default().unwrap().cast::<i32>() == Some(d));
    assert!(e.__private_capture_as_default().unwrap().cast::<bool>() == Some(e));
    // through a reference, as the macros do (auto-ref)
    assert!((&a).__private_capture_as_default().unwrap().cast::<u64>() == Some(a));
    kani::cover!(true);
}

#[cfg_attr(kani, kani::proof)]
pub(crate) fn c19_capture_default_wide_and_float() {
    let a: u128 = kani::any();
    let b: i128 = kani::any();
    let f: f64 = kani::any();
    assert!(a.__private_capture_as_default().unwrap().cast::<u128>() == Some(a));
    assert!(b.__private_capture_as_default().unwrap().cast::<i128>() == Some(b));
    let back = f.__private_capture_as_default().unwrap().cast::<f64>();
    assert!(back.map(|x| x.to_bits()) == Some(f.to_bits()));
    kani::cover!(true);
}

#[cfg_attr(kani, kani::proof)]
pub(crate) fn c19_optional_capture_none_adds_nothing() {
    let v: u64 = kani::any();
    let some: Option<&u64> = Some(&v);
    let none: Option<&u64> = None;
    let got = some.__private_optional_capture_option_ref().__private_optional_map_option_ref(|x| x.__private_capture_as_default());
    assert!(got.unwrap().cast::<u64>() == Some(v));
    let got = none.__private_optional_capture_option_ref().__private_optional_map_option_ref(|x: &u64| x.__private_capture_as_default());
    assert!(got.is_none());
    kani::cover!(true);
}
