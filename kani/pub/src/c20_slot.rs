//! C20: a runtime slot is inert before it is initialised (the components `AmbientSlot::get` hands out for an
//! empty slot are the constant all-`Empty` runtime, reached through the real type-erased `dyn` dispatch).
#[cfg(not(kani))]
use crate::kani;
use emit::{Clock, Ctxt, Emitter, Event, Filter, Path, Rng, Template};

/// A fresh slot is not enabled; flushing through it returns true for EVERY timeout; emitting an event with an
/// arbitrary property value through its emitter returns without panicking; the slot is still not enabled afterwards.
#[cfg_attr(kani, kani::proof)]
#[cfg_attr(kani, kani::unwind(4))]
pub(crate) fn c20_uninitialised_slot_is_inert() {
    let slot = emit::runtime::AmbientSlot::new();
    assert!(!slot.is_enabled());

    let secs: u64 = kani::any();
    let nanos: u32 = kani::any();
    kani::assume(nanos < 1_000_000_000);
    let timeout = core::time::Duration::new(secs, nanos);
    assert!(slot.get().emitter().blocking_flush(timeout));

    let v: u64 = kani::any();
    let props = [("k", v)];
    let evt = Event::new(Path::new_raw("m"), Template::literal("t"), emit::Empty, &props);
    slot.get().emitter().emit(&evt);

    assert!(!slot.is_enabled());
    kani::cover!(true);
}

/// The other four components of an empty slot: the filter accepts, the clock and the rng answer None, a frame can be
/// opened, entered, exited and closed without panicking, and the current properties are empty.
#[cfg_attr(kani, kani::proof)]
#[cfg_attr(kani, kani::unwind(4))]
pub(crate) fn c20_uninitialised_slot_components() {
    let slot = emit::runtime::AmbientSlot::new();
    let v: u64 = kani::any();
    let props = [("k", v)];
    let evt = Event::new(Path::new_raw("m"), Template::literal("t"), emit::Empty, &props);
    assert!(slot.get().filter().matches(&evt));
    assert!(slot.get().clock().now().is_none());
    assert!(slot.get().rng().gen_u64().is_none());
    assert!(slot.get().rng().gen_u128().is_none());
    let ctxt = slot.get().ctxt();
    let mut frame = ctxt.open_push(&props);
    ctxt.enter(&mut frame);
    let seen = ctxt.with_current(|cur| emit::Props::get(cur, "k").is_some());
    assert!(!seen);
    ctxt.exit(&mut frame);
    ctxt.close(frame);
    assert!(!slot.is_enabled());
    kani::cover!(true);
}

/// The whole pipeline through an empty slot: `Runtime::emit` on the runtime `get` hands out returns without panicking.
#[cfg_attr(kani, kani::proof)]
#[cfg_attr(kani, kani::unwind(4))]
pub(crate) fn c20_uninitialised_slot_emit_pipeline() {
    let slot = emit::runtime::AmbientSlot::new();
    let v: u64 = kani::any();
    let props = [("k", v)];
    let evt = Event::new(Path::new_raw("m"), Template::literal("t"), emit::Empty, &props);
    slot.get().emit(&evt);
    assert!(!slot.is_enabled());
    kani::cover!(true);
}
