//! C01: composite destinations and filters behave as their logical definition; erased == generic.
#[cfg(not(kani))]
use crate::kani;
use crate::oracles::*;
use core::time::Duration;
use emit::{
    emitter::{ErasedEmitter, Emitter},
    filter::{ErasedFilter, Filter},
    Event, Path, Props, Template,
};

fn evt<'a>(props: &'a [(&'static str, u64); 1]) -> Event<'a, &'a [(&'static str, u64); 1]> {
    Event::new(Path::new_raw("m"), Template::literal("t"), emit::Empty, props)
}
fn any_timeout() -> Duration {
    let s: u64 = kani::any();
    let n: u32 = kani::any();
    kani::assume(n < 1_000_000_000);
    Duration::new(s, n)
}

/// And: both sides receive the same event exactly once each; flush = lhs && rhs, each with timeout / 2,
/// BOTH sides are flushed even when the left one fails.
#[cfg_attr(kani, kani::proof)]
#[cfg_attr(kani, kani::unwind(6))]
pub(crate) fn c01_emitter_and_contract() {
    let v: u64 = kani::any();
    let (fa, fb): (bool, bool) = (kani::any(), kani::any());
    let both = OracleEmitter::with_flush(fa).and_to(OracleEmitter::with_flush(fb));
    let props = [("k", v)];
    both.emit(evt(&props));
    let want = Seen { k: Some(v), amb: None, start: None, end: None, is_range: false, mdl_is_m: true };
    assert!(both.left().calls.get() == 1 && both.right().calls.get() == 1);
    assert!(both.left().seen.get() == want && both.right().seen.get() == want);
    let t = any_timeout();
    let r = both.blocking_flush(t);
    assert!(r == (fa && fb));
    assert!(both.left().flushes.get() == 1 && both.right().flushes.get() == 1);
    assert!(both.left().flush_timeout.get() == Some(t / 2) && both.right().flush_timeout.get() == Some(t / 2));
    kani::cover!(true);
}

/// Option / & / Box / Arc / Empty: forward once (or not at all for None / Empty); flush defers (true for None / Empty).
#[cfg_attr(kani, kani::proof)]
#[cfg_attr(kani, kani::unwind(6))]
pub(crate) fn c01_emitter_wrappers_contract() {
    let v: u64 = kani::any();
    let fl: bool = kani::any();
    let props = [("k", v)];
    let want = Seen { k: Some(v), amb: None, start: None, end: None, is_range: false, mdl_is_m: true };
    let t = any_timeout();
    let which: u8 = kani::any();
    kani::assume(which <= 5);
    match which {
        0 => {
            let e = Some(OracleEmitter::with_flush(fl));
            e.emit(evt(&props));
            let i = e.as_ref().unwrap();
            assert!(i.calls.get() == 1 && i.seen.get() == want);
            assert!(e.blocking_flush(t) == fl && i.flushes.get() == 1 && i.flush_timeout.get() == Some(t));
        }
        1 => {
            let e: Option<OracleEmitter> = None;
            e.emit(evt(&props));
            assert!(e.blocking_flush(t));
        }
        2 => {
            let i = OracleEmitter::with_flush(fl);
            let e = &i;
            e.emit(evt(&props));
            assert!(i.calls.get() == 1 && i.seen.get() == want);
            assert!(e.blocking_flush(t) == fl && i.flushes.get() == 1 && i.flush_timeout.get() == Some(t));
        }
        3 => {
            let e = Box::new(OracleEmitter::with_flush(fl));
            e.emit(evt(&props));
            assert!(e.calls.get() == 1 && e.seen.get() == want);
            assert!(Emitter::blocking_flush(&e, t) == fl && e.flushes.get() == 1 && e.flush_timeout.get() == Some(t));
        }
        4 => {
            let e = std::sync::Arc::new(OracleEmitter::with_flush(fl));
            e.emit(evt(&props));
            assert!(e.calls.get() == 1 && e.seen.get() == want);
            assert!(Emitter::blocking_flush(&e, t) == fl && e.flushes.get() == 1 && e.flush_timeout.get() == Some(t));
        }
        _ => {
            emit::Empty.emit(evt(&props));
            assert!(emit::Empty.blocking_flush(t));
        }
    }
    kani::cover!(true);
}

struct Ss<'a>(&'a OracleEmitter);
unsafe impl<'a> Send for Ss<'a> {}
unsafe impl<'a> Sync for Ss<'a> {}
impl<'a> Emitter for Ss<'a> {
    fn emit<E: emit::event::ToEvent>(&self, evt: E) {
        self.0.emit(evt)
    }
    fn blocking_flush(&self, timeout: Duration) -> bool {
        self.0.blocking_flush(timeout)
    }
}

/// The type-erased path is observationally the generic one: same single delivery, same event, same flush.
#[cfg_attr(kani, kani::proof)]
#[cfg_attr(kani, kani::unwind(6))]
pub(crate) fn c01_erased_emitter_equals_generic() {
    let v: u64 = kani::any();
    let fl: bool = kani::any();
    let props = [("k", v)];
    let want = Seen { k: Some(v), amb: None, start: None, end: None, is_range: false, mdl_is_m: true };
    let i = OracleEmitter::with_flush(fl);
    let t = any_timeout();
    if kani::any() {
        let e: &dyn ErasedEmitter = &i;
        e.emit(evt(&props));
        assert!(e.blocking_flush(t) == fl);
    } else {
        let ss = Ss(&i);
        let e: &(dyn ErasedEmitter + Send + Sync) = &ss;
        e.emit(evt(&props));
        assert!(e.blocking_flush(t) == fl);
    }
    assert!(i.calls.get() == 1 && i.seen.get() == want);
    assert!(i.flushes.get() == 1 && i.flush_timeout.get() == Some(t));
    kani::cover!(true);
}

/// wrapping::from_filter: forwarded iff the filter accepts what it is shown (the same event); flush defers unchanged.
#[cfg_attr(kani, kani::proof)]
#[cfg_attr(kani, kani::unwind(6))]
pub(crate) fn c01_wrap_from_filter_contract() {
    let v: u64 = kani::any();
    let answer: bool = kani::any();
    let fl: bool = kani::any();
    let props = [("k", v)];
    // the event's own extent: none, a point, or a range (forwards, empty or backwards) - filter and destination must see the same one
    let kind: u8 = kani::any();
    kani::assume(kind <= 2);
    let (a, b) = (any_ts(), any_ts());
    let (ext, start, end, is_range) = match kind {
        0 => (None, None, None, false),
        1 => (Some(emit::Extent::point(a)), None, Some(a), false),
        _ => (Some(emit::Extent::range(a..b)), Some(a), Some(b), true),
    };
    let want = Seen { k: Some(v), amb: None, start, end, is_range, mdl_is_m: true };
    let f = OracleFilter::new(answer);
    let e = OracleEmitter::with_flush(fl).wrap_emitter(emit::emitter::wrapping::from_filter(&f));
    e.emit(Event::new(Path::new_raw("m"), Template::literal("t"), ext, &props));
    assert!(f.calls.get() == 1 && f.seen.get() == want);
    assert!(e.emitter().calls.get() == if answer { 1 } else { 0 });
    if answer {
        assert!(e.emitter().seen.get() == want);
    }
    let t = any_timeout();
    assert!(e.blocking_flush(t) == fl && e.emitter().flushes.get() == 1 && e.emitter().flush_timeout.get() == Some(t));
    kani::cover!(true);
}

/// Erased filters: `&dyn ErasedFilter` gives the oracle the same event and returns its answer; consulted once.
#[cfg_attr(kani, kani::proof)]
#[cfg_attr(kani, kani::unwind(6))]
pub(crate) fn c01_erased_filter_equals_generic() {
    let v: u64 = kani::any();
    let answer: bool = kani::any();
    let props = [("k", v)];
    let want = Seen { k: Some(v), amb: None, start: None, end: None, is_range: false, mdl_is_m: true };
    let f = OracleFilter::new(answer);
    let e: &dyn ErasedFilter = &f;
    assert!(e.matches(evt(&props)) == answer);
    assert!(f.calls.get() == 1 && f.seen.get() == want);
    kani::cover!(true);
}

/// Filter combinators over ORACLE children, observed through the erased path too: And = both (short-circuit:
/// right consulted only if left accepted), Or = either (right consulted only if left rejected).
#[cfg_attr(kani, kani::proof)]
#[cfg_attr(kani, kani::unwind(6))]
pub(crate) fn c01_filter_and_or_short_circuit() {
    let v: u64 = kani::any();
    let (a, b): (bool, bool) = (kani::any(), kani::any());
    let props = [("k", v)];
    let (fa, fb) = (OracleFilter::new(a), OracleFilter::new(b));
    if kani::any() {
        let f = (&fa).and_when(&fb);
        assert!(f.matches(evt(&props)) == (a && b));
        assert!(fa.calls.get() == 1 && fb.calls.get() == if a { 1 } else { 0 });
    } else {
        let f = (&fa).or_when(&fb);
        assert!(f.matches(evt(&props)) == (a || b));
        assert!(fa.calls.get() == 1 && fb.calls.get() == if a { 0 } else { 1 });
    }
    kani::cover!(true);
}
