//! C04 / C05 through the public API: the filter decides once, the completion fires once, the event carries
//! the span's own properties, the ambient ones and a range extent from the start reading to the end reading.
#[cfg(not(kani))]
use crate::kani;
use crate::oracles::*;
use core::cell::Cell;
use emit::{clock::Clock, span::SpanGuard, timer::Timer, Emitter, Props, Timestamp};

/// A clock that answers `t0` on its first reading and `t1` on every later one, counting readings.
pub struct SeqClock {
    pub calls: Cell<u32>,
    pub t0: Option<Timestamp>,
    pub t1: Option<Timestamp>,
}
impl Clock for SeqClock {
    fn now(&self) -> Option<Timestamp> {
        let n = self.calls.get();
        self.calls.set(n + 1);
        if n == 0 {
            self.t0
        } else {
            self.t1
        }
    }
}

/// Timer: one reading at start, one per extent(); extent = Some(range(start..end)) iff BOTH readings exist,
/// for any two readings (a clock going backwards included).
#[cfg_attr(kani, kani::proof)]
pub(crate) fn c05_timer_extent_contract() {
    let clk = SeqClock { calls: Cell::new(0), t0: any_opt_ts(), t1: any_opt_ts() };
    let timer = Timer::start(&clk);
    assert!(clk.calls.get() == 1);
    assert!(timer.start_timestamp() == clk.t0);
    let e = timer.extent();
    assert!(clk.calls.get() == 2);
    match (clk.t0, clk.t1) {
        (Some(a), Some(b)) => {
            let e = e.unwrap();
            let r = e.as_range().unwrap();
            assert!(r.start == a && r.end == b);
        }
        _ => assert!(e.is_none()),
    }
    // the `ToExtent` view (what `Span::new` / the completions use) and the borrowed timer take ONE further reading each and
    // give the same answer: a range from the start reading to that reading iff both exist - also for readings that go backwards
    let e2 = emit::extent::ToExtent::to_extent(&timer);
    assert!(clk.calls.get() == 3);
    let tb = timer.by_ref();
    assert!(tb.start_timestamp() == clk.t0);
    let e3 = tb.extent();
    assert!(clk.calls.get() == 4);
    for e in [e2, e3] {
        match (clk.t0, clk.t1) {
            (Some(a), Some(b)) => {
                let e = e.unwrap();
                let r = e.as_range().unwrap();
                assert!(r.start == a && r.end == b);
            }
            _ => assert!(e.is_none()),
        }
    }
    kani::cover!(true);
}

// NOTE: a public-API harness for SpanGuard::new + start + drop with the default completion was tried twice
// (oracles inspecting the props; oracles only counting / reading the extent): CBMC does not finish within
// 15 minutes either way (SpanGuard::new composes five property collections and two templates for the filter's
// event). The per-operation contracts are proved in-crate (kani/incrate/span.rs) and the ids by the Verus unit
// emit_span_ctxt, so that harness is not registered.
