//! C04 / C05 through the public API: the filter decides once, the completion fires once, the event carries
//! the span's own properties, the ambient ones and a range extent from the start reading to the end reading.
#[cfg(not(kani))]
use crate::kani;
use crate::oracles::*;
use core::cell::Cell;
use emit::{clock::Clock, span::SpanGuard, timer::Timer, Emitter, Props, Timestamp};

/// A clock that answers `t0` on its first reading and `t1` on every later one, counting readings.
pub struct SeqClock {
    pub calls: Cell<u32>,
    pub t0: Option<Timestamp>,
    pub t1: Option<Timestamp>,
}
impl Clock for SeqClock {
    fn now(&self) -> Option<Timestamp> {
        let n = self.calls.get();
        self.calls.set(n + 1);
        if n == 0 {
            self.t0
        } else {
            self.t1
        }
    }
}

/// Timer: one reading at start, one per extent(); extent = Some(range(start..end)) iff BOTH readings exist,
/// for any two readings (a clock going backwards included).
#[cfg_attr(kani, kani::proof)]
pub(crate) fn c05_timer_extent_contract() {
    let clk = SeqClock { calls: Cell::new(0), t0: any_opt_ts(), t1: any_opt_ts() };
    let timer = Timer::start(&clk);
    assert!(clk.calls.get() == 1);
    assert!(timer.start_timestamp() == clk.t0);
    let e = timer.extent();
    assert!(clk.calls.get() == 2);
    match (clk.t0, clk.t1) {
        (Some(a), Some(b)) => {
            let e = e.unwrap();
            let r = e.as_range().unwrap();
            assert!(r.start == a && r.end == b);
        }
        _ => assert!(e.is_none()),
    }
    kani::cover!(true);
}

/// SpanGuard::new + start + drop with the default completion: the filter is consulted exactly once (C04),
/// is_enabled() is its answer, and the emitter receives exactly one event iff the span was accepted, with the
/// range extent start-reading..end-reading; a rejected span emits nothing. (Oracles that do not inspect the
/// properties: the composed span props are too heavy for CBMC - the ids are covered by the Verus unit.)
#[cfg_attr(kani, kani::proof)]
#[cfg_attr(kani, kani::unwind(4))]
pub(crate) fn c05_span_lifecycle_contract() {
    let answer: bool = kani::any();
    let filter = CountFilter { calls: Cell::new(0), answer };
    let emitter = ExtentEmitter::new();
    let clk = SeqClock { calls: Cell::new(0), t0: any_opt_ts(), t1: any_opt_ts() };
    let (guard, frame) = SpanGuard::new(
        &filter,
        emit::Empty,
        &clk,
        emit::Empty,
        emit::span::completion::Default::<_, _, emit::Level>::new(&emitter, emit::Empty),
        emit::Empty,
        emit::Path::new_raw("m"),
        "s",
        emit::Empty,
    );
    assert!(filter.calls.get() == 1);
    assert!(guard.is_enabled() == answer);
    assert!(emitter.calls.get() == 0 && clk.calls.get() == 0);
    frame.call(move || {
        let mut guard = guard;
        guard.start();
    });
    assert!(filter.calls.get() == 1);
    assert!(emitter.calls.get() == if answer { 1 } else { 0 });
    if answer {
        match (clk.t0, clk.t1) {
            (Some(a), Some(b)) => assert!(emitter.is_range.get() && emitter.start.get() == Some(a) && emitter.end.get() == Some(b)),
            _ => assert!(!emitter.is_range.get() && emitter.start.get().is_none()),
        }
    }
    kani::cover!(true);
}
