//! Oracle children for combinator contracts: they record what they are shown and answer symbolically.
#[cfg(not(kani))]
use crate::kani;
use core::cell::Cell;
use core::time::Duration;
use emit::{
    clock::Clock,
    ctxt::Ctxt,
    emitter::Emitter,
    event::ToEvent,
    filter::Filter,
    props::Props,
    Timestamp,
};

/// A timestamp anywhere in the supported range.
pub fn any_ts() -> Timestamp {
    let secs: u64 = kani::any();
    let nanos: u32 = kani::any();
    kani::assume(secs <= 253402300799);
    kani::assume(nanos < 1_000_000_000);
    Timestamp::from_unix(Duration::new(secs, nanos)).unwrap()
}
pub fn any_opt_ts() -> Option<Timestamp> {
    if kani::any() {
        Some(any_ts())
    } else {
        None
    }
}

/// What an observer saw of one event.
#[derive(Clone, Copy, PartialEq, Eq, Debug)]
pub struct Seen {
    pub k: Option<u64>,      // value under key "k"
    pub amb: Option<u64>,    // value under key "amb"
    pub start: Option<Timestamp>, // extent: range start
    pub end: Option<Timestamp>,   // extent: point / range end
    pub is_range: bool,
    pub mdl_is_m: bool,
}
pub const NOTHING: Seen = Seen { k: None, amb: None, start: None, end: None, is_range: false, mdl_is_m: false };

pub fn observe<E: ToEvent>(evt: E) -> Seen {
    let evt = evt.to_event();
    let k = evt.props().pull::<u64, _>("k");
    let amb = evt.props().pull::<u64, _>("amb");
    let (start, end, is_range) = match evt.extent() {
        None => (None, None, false),
        Some(x) => match x.as_range() {
            Some(r) => (Some(r.start), Some(r.end), true),
            None => (None, Some(*x.as_point()), false),
        },
    };
    Seen { k, amb, start, end, is_range, mdl_is_m: evt.mdl() == "m" }
}

/// A filter that counts its consultations, records what it was shown, and answers `answer`.
pub struct OracleFilter {
    pub calls: Cell<u32>,
    pub seen: Cell<Seen>,
    pub answer: bool,
}
impl OracleFilter {
    pub fn new(answer: bool) -> Self {
        OracleFilter { calls: Cell::new(0), seen: Cell::new(NOTHING), answer }
    }
}
impl Filter for OracleFilter {
    fn matches<E: ToEvent>(&self, evt: E) -> bool {
        self.calls.set(self.calls.get() + 1);
        self.seen.set(observe(evt));
        self.answer
    }
}

/// The two template literals the template-observing oracles tell apart. They are recognised by IDENTITY (the
/// `&'static str` the template was built from: `Template::literal(TPL_T)` hands the same slice back from
/// `as_literal()`), not by comparing bytes: a byte comparison under a symbolic template costs CBMC minutes.
pub static TPL_T: &'static str = "t";
pub static TPL_U: &'static str = "u";
/// Which template an observer saw: 1 = the literal TPL_T, 2 = the literal TPL_U, 0 = anything else.
pub fn observe_tpl<E: ToEvent>(evt: E) -> u8 {
    let evt = evt.to_event();
    match evt.tpl().as_literal() {
        Some(s) if core::ptr::eq(s.get(), TPL_T) => 1,
        Some(s) if core::ptr::eq(s.get(), TPL_U) => 2,
        _ => 0,
    }
}

/// An OracleFilter that also records the template it was shown.
pub struct TplFilter {
    pub inner: OracleFilter,
    pub tpl: Cell<u8>,
}
impl TplFilter {
    pub fn new(answer: bool) -> Self {
        TplFilter { inner: OracleFilter::new(answer), tpl: Cell::new(0) }
    }
}
impl Filter for TplFilter {
    fn matches<E: ToEvent>(&self, evt: E) -> bool {
        let evt = evt.to_event();
        self.tpl.set(observe_tpl(&evt));
        self.inner.matches(&evt)
    }
}

/// An OracleEmitter that also records the template it was shown.
pub struct TplEmitter {
    pub inner: OracleEmitter,
    pub tpl: Cell<u8>,
}
impl TplEmitter {
    pub fn new() -> Self {
        TplEmitter { inner: OracleEmitter::new(), tpl: Cell::new(0) }
    }
}
impl Emitter for TplEmitter {
    fn emit<E: ToEvent>(&self, evt: E) {
        let evt = evt.to_event();
        self.tpl.set(observe_tpl(&evt));
        self.inner.emit(&evt)
    }
    fn blocking_flush(&self, timeout: Duration) -> bool {
        self.inner.blocking_flush(timeout)
    }
}

/// An emitter that counts and records.
pub struct OracleEmitter {
    pub calls: Cell<u32>,
    pub seen: Cell<Seen>,
    pub flushes: Cell<u32>,
    pub flush_timeout: Cell<Option<Duration>>,
    pub flush_answer: bool,
}
impl OracleEmitter {
    pub fn new() -> Self {
        OracleEmitter { calls: Cell::new(0), seen: Cell::new(NOTHING), flushes: Cell::new(0), flush_timeout: Cell::new(None), flush_answer: true }
    }
    pub fn with_flush(answer: bool) -> Self {
        let mut e = Self::new();
        e.flush_answer = answer;
        e
    }
}
impl Emitter for OracleEmitter {
    fn emit<E: ToEvent>(&self, evt: E) {
        self.calls.set(self.calls.get() + 1);
        self.seen.set(observe(evt));
    }
    fn blocking_flush(&self, timeout: Duration) -> bool {
        self.flushes.set(self.flushes.get() + 1);
        self.flush_timeout.set(Some(timeout));
        self.flush_answer
    }
}

pub struct OracleClock {
    pub calls: Cell<u32>,
    pub now: Option<Timestamp>,
}
impl Clock for OracleClock {
    fn now(&self) -> Option<Timestamp> {
        self.calls.set(self.calls.get() + 1);
        self.now
    }
}

/// A context whose current (ambient) properties are ("k", amb_k), ("amb", amb) and that logs frame operations.
/// The log is a small fixed array of op codes: 1 open_root, 2 enter, 3 exit, 4 close (+ 16 * frame id).
pub struct OracleCtxt {
    pub current: [(&'static str, u64); 2],
    pub log: Cell<[u8; 8]>,
    pub n: Cell<usize>,
    pub next_frame: Cell<u8>,
    pub with_current_calls: Cell<u32>,
    /// what the last open_root was given: (value under "p", value under "amb")
    pub root_seen: Cell<(Option<u64>, Option<u64>)>,
}
impl OracleCtxt {
    pub fn new(amb_k: u64, amb: u64) -> Self {
        OracleCtxt { current: [("k", amb_k), ("amb", amb)], log: Cell::new([0; 8]), n: Cell::new(0), next_frame: Cell::new(1), with_current_calls: Cell::new(0), root_seen: Cell::new((None, None)) }
    }
    /// op 9 = "the scope ran here"
    pub fn mark(&self) {
        self.push(9);
    }
    pub fn push(&self, op: u8) {
        let mut l = self.log.get();
        let n = self.n.get();
        if n < 8 {
            l[n] = op;
        }
        self.log.set(l);
        self.n.set(n + 1);
    }
    pub fn ops(&self) -> ([u8; 8], usize) {
        (self.log.get(), self.n.get())
    }
}
pub struct OracleFrame {
    pub id: u8,
}
impl Ctxt for OracleCtxt {
    type Current = [(&'static str, u64); 2];
    type Frame = OracleFrame;
    fn open_root<P: Props>(&self, props: P) -> OracleFrame {
        self.root_seen.set((props.pull::<u64, _>("p"), props.pull::<u64, _>("amb")));
        let id = self.next_frame.get();
        self.next_frame.set(id + 1);
        self.push(1 + 16 * id);
        OracleFrame { id }
    }
    fn enter(&self, frame: &mut OracleFrame) {
        self.push(2 + 16 * frame.id);
    }
    fn with_current<R, F: FnOnce(&Self::Current) -> R>(&self, with: F) -> R {
        self.with_current_calls.set(self.with_current_calls.get() + 1);
        with(&self.current)
    }
    fn exit(&self, frame: &mut OracleFrame) {
        self.push(3 + 16 * frame.id);
    }
    fn close(&self, frame: OracleFrame) {
        self.push(4 + 16 * frame.id);
    }
}

/// The same oracle with a frame too large for ErasedFrame's inline storage (exercises the boxed path).
pub struct BigCtxt(pub OracleCtxt);
pub struct BigFrame {
    pub id: u8,
    pub pad: [u64; 4],
}
impl Ctxt for BigCtxt {
    type Current = [(&'static str, u64); 2];
    type Frame = BigFrame;
    fn open_root<P: Props>(&self, props: P) -> BigFrame {
        let f = self.0.open_root(props);
        BigFrame { id: f.id, pad: [7; 4] }
    }
    fn enter(&self, frame: &mut BigFrame) {
        self.0.push(2 + 16 * frame.id);
    }
    fn with_current<R, F: FnOnce(&Self::Current) -> R>(&self, with: F) -> R {
        self.0.with_current(with)
    }
    fn exit(&self, frame: &mut BigFrame) {
        self.0.push(3 + 16 * frame.id);
    }
    fn close(&self, frame: BigFrame) {
        assert!(frame.pad[0] == 7 && frame.pad[1] == 7 && frame.pad[2] == 7 && frame.pad[3] == 7);
        self.0.push(4 + 16 * frame.id);
    }
}

/// A scalar-only oracle context (no arrays: cheap for CBMC when it lives behind Box / Arc): a phase machine
/// 0 -open-> 1 -enter-> 2 -exit-> 3 -close-> 4 that asserts the order and the identity of the frame itself.
pub struct PhaseCtxt {
    pub phase: Cell<u8>,
    pub amb: [(&'static str, u64); 1],
}
pub struct PhaseFrame(pub u8);
impl PhaseCtxt {
    pub fn new(amb: u64) -> Self {
        PhaseCtxt { phase: Cell::new(0), amb: [("amb", amb)] }
    }
    fn step(&self, from: u8) {
        assert!(self.phase.get() == from);
        self.phase.set(from + 1);
    }
}
impl Ctxt for PhaseCtxt {
    type Current = [(&'static str, u64); 1];
    type Frame = PhaseFrame;
    fn open_root<P: Props>(&self, _: P) -> PhaseFrame {
        self.step(0);
        PhaseFrame(77)
    }
    fn enter(&self, f: &mut PhaseFrame) {
        assert!(f.0 == 77);
        self.step(1);
    }
    fn with_current<R, F: FnOnce(&Self::Current) -> R>(&self, with: F) -> R {
        with(&self.amb)
    }
    fn exit(&self, f: &mut PhaseFrame) {
        assert!(f.0 == 77);
        self.step(2);
    }
    fn close(&self, f: PhaseFrame) {
        assert!(f.0 == 77);
        self.step(3);
    }
}

/// Oracles that do not look at the properties (cheap when the event's props are large compositions).
pub struct CountFilter {
    pub calls: Cell<u32>,
    pub answer: bool,
}
impl Filter for CountFilter {
    fn matches<E: ToEvent>(&self, _: E) -> bool {
        self.calls.set(self.calls.get() + 1);
        self.answer
    }
}
pub struct ExtentEmitter {
    pub calls: Cell<u32>,
    pub start: Cell<Option<Timestamp>>,
    pub end: Cell<Option<Timestamp>>,
    pub is_range: Cell<bool>,
}
impl ExtentEmitter {
    pub fn new() -> Self {
        ExtentEmitter { calls: Cell::new(0), start: Cell::new(None), end: Cell::new(None), is_range: Cell::new(false) }
    }
}
impl Emitter for ExtentEmitter {
    fn emit<E: ToEvent>(&self, evt: E) {
        let evt = evt.to_event();
        self.calls.set(self.calls.get() + 1);
        if let Some(x) = evt.extent() {
            match x.as_range() {
                Some(r) => {
                    self.start.set(Some(r.start));
                    self.end.set(Some(r.end));
                    self.is_range.set(true);
                }
                None => self.end.set(Some(*x.as_point())),
            }
        }
    }
    fn blocking_flush(&self, _: Duration) -> bool {
        true
    }
}

/// An oracle context that overrides ALL three open_* methods and records which one was used (1 root, 2 push,
/// 3 disabled) together with the value it was given under "p": a forwarding / erased context must dispatch each
/// of them to the same method of the inner context.
pub struct KindCtxt {
    pub opened: Cell<u8>,
    pub p: Cell<Option<u64>>,
    pub amb: [(&'static str, u64); 1],
}
impl KindCtxt {
    pub fn new() -> Self {
        KindCtxt { opened: Cell::new(0), p: Cell::new(None), amb: [("amb", 1)] }
    }
}
impl Ctxt for KindCtxt {
    type Current = [(&'static str, u64); 1];
    type Frame = PhaseFrame;
    fn open_root<P: Props>(&self, props: P) -> PhaseFrame {
        self.opened.set(1);
        self.p.set(props.pull::<u64, _>("p"));
        PhaseFrame(77)
    }
    fn open_push<P: Props>(&self, props: P) -> PhaseFrame {
        self.opened.set(2);
        self.p.set(props.pull::<u64, _>("p"));
        PhaseFrame(77)
    }
    fn open_disabled<P: Props>(&self, props: P) -> PhaseFrame {
        self.opened.set(3);
        self.p.set(props.pull::<u64, _>("p"));
        PhaseFrame(77)
    }
    fn enter(&self, _: &mut PhaseFrame) {}
    fn with_current<R, F: FnOnce(&Self::Current) -> R>(&self, with: F) -> R {
        with(&self.amb)
    }
    fn exit(&self, _: &mut PhaseFrame) {}
    fn close(&self, _: PhaseFrame) {}
}
