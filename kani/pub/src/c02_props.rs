//! C02 pieces that are outside Verus: the trait's DEFAULT `get` (a visitor closure capturing `&mut`) and the
//! type-erased path. Keys are concrete (CBMC cannot cope with symbolic string keys), values are symbolic.
#[cfg(not(kani))]
use crate::kani;
use core::ops::ControlFlow;
use emit::props::ErasedProps;
use emit::{Props, Str, Value};

/// A collection that relies on every default method of the trait (only `for_each` is implemented).
struct Plain([(&'static str, u64); 3]);
impl Props for Plain {
    fn for_each<'kv, F: FnMut(Str<'kv>, Value<'kv>) -> ControlFlow<()>>(&'kv self, mut for_each: F) -> ControlFlow<()> {
        let mut i = 0;
        while i < 3 {
            for_each(Str::new(self.0[i].0), Value::from(self.0[i].1))?;
            i += 1;
        }
        ControlFlow::Continue(())
    }
}

/// Default `get` / `pull`: the FIRST value enumerated for a key wins; an absent key gives None; default is_unique is false.
#[cfg_attr(kani, kani::proof)]
#[cfg_attr(kani, kani::unwind(5))]
pub(crate) fn c02_default_get_first_wins() {
    let v: [u64; 3] = [kani::any(), kani::any(), kani::any()];
    let p = Plain([("a", v[0]), ("a", v[1]), ("b", v[2])]);
    assert!(p.pull::<u64, _>("a") == Some(v[0]));
    assert!(p.pull::<u64, _>("b") == Some(v[2]));
    assert!(p.pull::<u64, _>("c").is_none());
    assert!(p.get("c").is_none());
    assert!(!p.is_unique());
    kani::cover!(true);
}

/// `&dyn ErasedProps` is observationally the collection it erases: same lookups, same enumeration (order, count,
/// values), same reaction to Break, same uniqueness claim.
#[cfg_attr(kani, kani::proof)]
#[cfg_attr(kani, kani::unwind(5))]
pub(crate) fn c02_erased_props_equals_generic() {
    let v: [u64; 3] = [kani::any(), kani::any(), kani::any()];
    let arr = [("a", v[0]), ("a", v[1]), ("b", v[2])];
    let e: &dyn ErasedProps = &arr;
    assert!(e.pull::<u64, _>("a") == Some(v[0]));
    assert!(e.pull::<u64, _>("b") == Some(v[2]));
    assert!(e.pull::<u64, _>("c").is_none());
    assert!(e.is_unique() == arr.is_unique());
    let stop_after: u8 = kani::any();
    kani::assume(stop_after <= 3);
    let mut seen = [0u64; 3];
    let mut n = 0u8;
    let r = e.for_each(|_, val| {
        seen[n as usize] = val.cast::<u64>().unwrap();
        n += 1;
        if n == stop_after {
            ControlFlow::Break(())
        } else {
            ControlFlow::Continue(())
        }
    });
    let expect_n = if stop_after == 0 { 3 } else { stop_after };
    assert!(n == expect_n);
    assert!(r.is_break() == (stop_after != 0));
    let mut i = 0;
    while i < expect_n as usize {
        assert!(seen[i] == v[i]);
        i += 1;
    }
    kani::cover!(true);
}

