// Unchanged tree: a file that merely has five dot-separated segments with the same first and last
// one is treated as a member of the set, so retention deletes it (and reuse_files would append to it).

use std::{path::Path, time::Duration};

use emit::Emitter as _;

#[test]
fn foreign_file_with_member_shape_is_left_alone() {
    let dir = Path::new(env!("CARGO_TARGET_TMPDIR")).join("c11_foreign");

    if dir.exists() {
        std::fs::remove_dir_all(&dir).unwrap();
    }
    std::fs::create_dir_all(&dir).unwrap();

    // Not written by any file set: no period, no counter, no hex id
    let foreign = dir.join("app.meeting.notes.draft.log");
    std::fs::write(&foreign, "do not delete").unwrap();

    let files = emit_file::set_with_writer(
        dir.join("app.log"),
        |buf, evt| {
            use std::io::Write as _;
            write!(buf, "{}", evt.msg())
        },
        b"\n",
    )
    .max_files(1)
    .spawn();

    files.emit(emit::evt!("event"));
    assert!(files.blocking_flush(Duration::from_secs(10)));
    drop(files);

    assert!(foreign.exists(), "the file set deleted a file it didn't create");
}
