// C12: a batch that is split into several size-limited requests loses every second request.
use std::io::{Read, Write};
use std::sync::{Arc, Mutex};
use std::time::Duration;
fn main() {
    let seen: Arc<Mutex<Vec<String>>> = Arc::new(Mutex::new(vec![]));
    let listener = std::net::TcpListener::bind("127.0.0.1:0").unwrap();
    let addr = listener.local_addr().unwrap();
    let seen2 = seen.clone();
    std::thread::spawn(move || {
        for conn in listener.incoming() {
            let mut conn = conn.unwrap();
            let seen = seen2.clone();
            std::thread::spawn(move || {
                let mut buf: Vec<u8> = vec![];
                let mut first = true;
                loop {
                    // read one request
                    let (hdr_end, len) = loop {
                        if let Some(p) = buf.windows(4).position(|w| w == b"\r\n\r\n") {
                            let h = String::from_utf8_lossy(&buf[..p]).to_lowercase();
                            let len: usize = h.lines().find_map(|l| l.strip_prefix("content-length:").map(|v| v.trim().parse().unwrap())).unwrap_or(0);
                            break (p + 4, len);
                        }
                        let mut tmp = [0u8; 65536];
                        let n = conn.read(&mut tmp).unwrap_or(0);
                        if n == 0 { return; }
                        buf.extend_from_slice(&tmp[..n]);
                    };
                    while buf.len() < hdr_end + len {
                        let mut tmp = [0u8; 65536];
                        let n = conn.read(&mut tmp).unwrap_or(0);
                        if n == 0 { return; }
                        buf.extend_from_slice(&tmp[..n]);
                    }
                    eprintln!("REQ hdr={:?} len={len}", String::from_utf8_lossy(&buf[..hdr_end.min(300)])); let body = String::from_utf8_lossy(&buf[hdr_end..hdr_end + len]).to_string();
                    buf.drain(..hdr_end + len);
                    for i in 0..10 { if body.contains(&format!("marker-{i}-")) { seen.lock().unwrap().push(format!("marker-{i}")); } }
                    if first { first = false; std::thread::sleep(Duration::from_millis(700)); } // keep the worker busy with the first batch
                    conn.write_all(b"HTTP/1.1 200 OK\r\ncontent-length: 0\r\n\r\n").unwrap();
                }
            });
        }
    });
    let otlp = emit_otlp::new()
        .resource(emit::props! { #[emit::key("service.name")] service_name: "repro" })
        .logs(emit_otlp::logs_http_json(format!("http://{addr}/v1/logs")))
        .spawn();
    let rt = emit::setup().emit_to(otlp).init();
    emit::info!("marker-0-");                 // batch 1: the server delays its answer
    std::thread::sleep(Duration::from_millis(200));
    let big = "x".repeat(600 * 1024);
    for i in 1..=6 { emit::info!("marker-{i}-{big}", i, big: big.as_str()); } // batch 2: 6 x 600 KiB > 3 requests of >= 1 MiB
    let flushed = rt.blocking_flush(Duration::from_secs(20));
    let mut s = seen.lock().unwrap().clone(); s.sort(); s.dedup();
    println!("C12 flushed = {flushed}; events the collector acknowledged: {} of 7: {:?}", s.len(), s);
}
