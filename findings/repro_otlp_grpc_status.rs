// C12 (gRPC): "A request that fails (... non-2xx status, non-zero gRPC status) is sent again".
// A local HTTP/2 (h2c) collector answers the FIRST export request badly and every later one with grpc-status 0.
// If the client recognises the failure it retries after its back-off and the collector sees the event twice.
use std::future::Future;
use std::pin::Pin;
use std::sync::{Arc, Mutex};
use std::task::{Context, Poll};
use std::time::Duration;

struct Io<T>(T);
impl<T: tokio::io::AsyncRead + Unpin> hyper::rt::Read for Io<T> {
    fn poll_read(mut self: Pin<&mut Self>, cx: &mut Context<'_>, mut buf: hyper::rt::ReadBufCursor<'_>) -> Poll<std::io::Result<()>> {
        let mut rb = tokio::io::ReadBuf::uninit(unsafe { buf.as_mut() });
        match tokio::io::AsyncRead::poll_read(Pin::new(&mut self.0), cx, &mut rb) {
            Poll::Ready(Ok(())) => { let n = rb.filled().len(); unsafe { buf.advance(n) }; Poll::Ready(Ok(())) }
            Poll::Ready(Err(e)) => Poll::Ready(Err(e)),
            Poll::Pending => Poll::Pending,
        }
    }
}
impl<T: tokio::io::AsyncWrite + Unpin> hyper::rt::Write for Io<T> {
    fn poll_write(mut self: Pin<&mut Self>, cx: &mut Context<'_>, buf: &[u8]) -> Poll<std::io::Result<usize>> { tokio::io::AsyncWrite::poll_write(Pin::new(&mut self.0), cx, buf) }
    fn poll_flush(mut self: Pin<&mut Self>, cx: &mut Context<'_>) -> Poll<std::io::Result<()>> { tokio::io::AsyncWrite::poll_flush(Pin::new(&mut self.0), cx) }
    fn poll_shutdown(mut self: Pin<&mut Self>, cx: &mut Context<'_>) -> Poll<std::io::Result<()>> { tokio::io::AsyncWrite::poll_shutdown(Pin::new(&mut self.0), cx) }
}
#[derive(Clone, Copy)]
struct Exec;
impl<F: Future + Send + 'static> hyper::rt::Executor<F> for Exec where F::Output: Send + 'static { fn execute(&self, fut: F) { tokio::spawn(fut); } }

/// a body with one (possibly empty) data frame and optional trailers
struct Body { data: Option<bytes::Bytes>, trailers: Option<hyper::HeaderMap> }
impl http_body::Body for Body {
    type Data = bytes::Bytes;
    type Error = std::convert::Infallible;
    fn poll_frame(mut self: Pin<&mut Self>, _: &mut Context<'_>) -> Poll<Option<Result<http_body::Frame<bytes::Bytes>, Self::Error>>> {
        if let Some(d) = self.data.take() { return Poll::Ready(Some(Ok(http_body::Frame::data(d)))); }
        if let Some(t) = self.trailers.take() { return Poll::Ready(Some(Ok(http_body::Frame::trailers(t)))); }
        Poll::Ready(None)
    }
}
#[derive(Clone, Copy, Debug)]
enum Bad { Http503NoGrpcStatus, TrailersOnlyUnavailable, MalformedStatus, TrailerStatus14 }

async fn serve(bad: Bad) -> (std::net::SocketAddr, Arc<Mutex<u32>>) {
    let listener = tokio::net::TcpListener::bind("127.0.0.1:0").await.unwrap();
    let addr = listener.local_addr().unwrap();
    let count = Arc::new(Mutex::new(0u32));
    let c2 = count.clone();
    tokio::spawn(async move {
        loop {
            let (sock, _) = listener.accept().await.unwrap();
            let count = c2.clone();
            tokio::spawn(async move {
                let svc = hyper::service::service_fn(move |req: hyper::Request<hyper::body::Incoming>| {
                    let count = count.clone();
                    async move {
                        use http_body::Body as _;
                        let mut body = req.into_body();
                        while let Some(_f) = std::future::poll_fn(|cx| Pin::new(&mut body).poll_frame(cx)).await {}
                        let n = { let mut c = count.lock().unwrap(); *c += 1; *c };
                        let ok_trailers = { let mut t = hyper::HeaderMap::new(); t.insert("grpc-status", "0".parse().unwrap()); t };
                        let resp = if n > 1 {
                            hyper::Response::builder().status(200).header("content-type", "application/grpc").body(Body { data: Some(bytes::Bytes::from_static(&[0, 0, 0, 0, 0])), trailers: Some(ok_trailers) })
                        } else {
                            match bad {
                                Bad::Http503NoGrpcStatus => hyper::Response::builder().status(503).body(Body { data: Some(bytes::Bytes::from_static(b"upstream unavailable")), trailers: None }),
                                Bad::TrailersOnlyUnavailable => hyper::Response::builder().status(200).header("content-type", "application/grpc").header("grpc-status", "14").header("grpc-message", "unavailable").body(Body { data: None, trailers: None }),
                                Bad::MalformedStatus => { let mut t = hyper::HeaderMap::new(); t.insert("grpc-status", "abc".parse().unwrap()); hyper::Response::builder().status(200).header("content-type", "application/grpc").body(Body { data: None, trailers: Some(t) }) }
                                Bad::TrailerStatus14 => { let mut t = hyper::HeaderMap::new(); t.insert("grpc-status", "14".parse().unwrap()); hyper::Response::builder().status(200).header("content-type", "application/grpc").body(Body { data: None, trailers: Some(t) }) }
                            }
                        };
                        Ok::<_, std::convert::Infallible>(resp.unwrap())
                    }
                });
                let _ = hyper::server::conn::http2::Builder::new(Exec).serve_connection(Io(sock), svc).await;
            });
        }
    });
    (addr, count)
}

fn main() {
    let rt = tokio::runtime::Builder::new_multi_thread().enable_all().build().unwrap();
    for bad in [Bad::TrailerStatus14, Bad::Http503NoGrpcStatus, Bad::TrailersOnlyUnavailable, Bad::MalformedStatus] {
        let (addr, count) = rt.block_on(serve(bad));
        let otlp = emit_otlp::new()
            .resource(emit::props! { #[emit::key("service.name")] service_name: "repro" })
            .logs(emit_otlp::logs_grpc_proto(format!("http://{addr}")))
            .spawn();
        emit::Emitter::emit(&otlp, emit::evt!("one event"));
        let flushed = emit::Emitter::blocking_flush(&otlp, Duration::from_secs(6));
        let n = *count.lock().unwrap();
        println!("C12 gRPC first answer {bad:?}: flush = {flushed}, export requests seen by the collector = {n} (2 = the failure was recognised and the batch was sent again)");
        drop(otlp);
    }
}
