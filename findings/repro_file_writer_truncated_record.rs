use std::{collections::BTreeMap, fs, path::PathBuf, time::Duration};
use emit::Emitter as _;

fn temp_dir(name: &str) -> PathBuf {
    let mut dir = std::env::temp_dir();
    dir.push(format!("emit_file_c13sw_{}_{}", name, std::process::id()));
    let _ = fs::remove_dir_all(&dir);
    fs::create_dir_all(&dir).unwrap();
    dir
}

#[test]
fn map_with_composite_key() {
    let dir = temp_dir("m");
    let mut m: BTreeMap<Vec<i32>, i32> = BTreeMap::new();
    m.insert(vec![1, 2], 3);
    {
        let files = emit_file::set(dir.join("log.txt")).spawn();
        files.emit(emit::Event::new(
            emit::Path::new("c13_demo").unwrap(),
            emit::Template::literal("hello"),
            emit::Empty,
            [("a", emit::Value::from(1)), ("m", emit::Value::capture_sval(&m)), ("z", emit::Value::from(2))],
        ));
        assert!(files.blocking_flush(Duration::from_secs(30)));
    }
    let mut lines = Vec::new();
    for entry in fs::read_dir(&dir).unwrap() {
        let content = fs::read_to_string(entry.unwrap().path()).unwrap();
        lines.extend(content.lines().map(|l| l.to_owned()));
    }
    let _ = fs::remove_dir_all(&dir);
    println!("LINES: {lines:?}");
    for l in &lines {
        // crude validity check: balanced braces/brackets outside strings and an even number of unescaped quotes
        let mut depth = 0i32; let mut in_str = false; let mut esc = false;
        for c in l.chars() {
            if in_str { if esc { esc = false } else if c == '\\' { esc = true } else if c == '"' { in_str = false } }
            else { match c { '"' => in_str = true, '{' | '[' => depth += 1, '}' | ']' => depth -= 1, _ => {} } }
        }
        assert!(!in_str && depth == 0, "malformed JSON line: {l}");
    }
    // an event JSON cannot express is dropped (and counted) rather than written truncated
    assert!(lines.len() <= 1);
}
