/*!
Findings on the UNCHANGED tree (C13). Copy to `emitter/otlp/tests/c13_found.rs`.

1. `non_string_map_key_panics_the_caller`: a property that is a map with a non-string key
   (integer, bool, float, bytes, sequence, map) reaches a `todo!()` in the any-value bridge
   (`emitter/otlp/src/data/any_value.rs`, `AnyStream::{bool,i64,f64,binary_begin,seq_begin,map_begin}`
   when `in_map_key`), and the event is encoded on the caller's thread, so `Otlp::emit` panics.
2. `json_metric_points_use_the_schema_field_names`: the JSON form of a metric data point calls
   its value `"value"`; the OTLP schema (protobuf JSON mapping) calls it `"asInt"` / `"asDouble"`,
   so a collector reading the JSON form sees points without a value: the JSON form doesn't denote
   the same records as the protobuf form.
3. `user_property_collides_with_exception_message`: a log event with both an `err` and a property
   named `exception.message` produces two attributes with the same key.
*/

use std::{
    io::{Read, Write},
    net::TcpListener,
    sync::{Arc, Mutex},
    thread,
    time::Duration,
};

use emit::Emitter as _;

fn collector() -> (String, Arc<Mutex<Vec<Vec<u8>>>>) {
    let listener = TcpListener::bind("127.0.0.1:0").unwrap();
    let addr = listener.local_addr().unwrap();
    let bodies = Arc::new(Mutex::new(Vec::new()));

    let received = bodies.clone();
    thread::spawn(move || {
        for conn in listener.incoming() {
            let Ok(mut conn) = conn else { continue };
            let received = received.clone();

            thread::spawn(move || {
                let mut buf = Vec::new();
                let mut chunk = [0u8; 4096];

                loop {
                    // Read a complete head
                    let head_end = loop {
                        if let Some(pos) = buf.windows(4).position(|w| w == b"\r\n\r\n") {
                            break pos + 4;
                        }

                        match conn.read(&mut chunk) {
                            Ok(0) | Err(_) => return,
                            Ok(n) => buf.extend_from_slice(&chunk[..n]),
                        }
                    };

                    let head = String::from_utf8_lossy(&buf[..head_end]).to_ascii_lowercase();
                    let len = head
                        .lines()
                        .find_map(|l| l.strip_prefix("content-length:"))
                        .map(|v| v.trim().parse::<usize>().unwrap())
                        .unwrap_or(0);

                    while buf.len() < head_end + len {
                        match conn.read(&mut chunk) {
                            Ok(0) | Err(_) => return,
                            Ok(n) => buf.extend_from_slice(&chunk[..n]),
                        }
                    }

                    received
                        .lock()
                        .unwrap()
                        .push(buf[head_end..head_end + len].to_vec());
                    buf.drain(..head_end + len);

                    if conn
                        .write_all(b"HTTP/1.1 200 OK\r\ncontent-length: 0\r\n\r\n")
                        .is_err()
                    {
                        return;
                    }
                }
            });
        }
    });

    (format!("http://{addr}/v1/logs"), bodies)
}

fn find_bytes(haystack: &[u8], needle: &[u8]) -> bool {
    haystack.windows(needle.len()).any(|w| w == needle)
}


#[test]
fn non_string_map_key_panics_the_caller() {
    let (url, _bodies) = collector();

    let otlp = emit_otlp::new()
        .logs(emit_otlp::logs_proto(
            emit_otlp::http(url).allow_compression(false),
        ))
        .spawn();

    let map = std::collections::BTreeMap::from([(1, "a"), (2, "b")]);

    let r = std::panic::catch_unwind(std::panic::AssertUnwindSafe(|| {
        otlp.emit(emit::evt!("map with integer keys", #[emit::as_sval] map));
    }));

    assert!(r.is_ok(), "emitting a map with integer keys panicked the caller");
}

#[test]
fn json_metric_points_use_the_schema_field_names() {
    let (url, bodies) = collector();

    let otlp = emit_otlp::new()
        .metrics(emit_otlp::metrics_json(
            emit_otlp::http(url.replace("/v1/logs", "/v1/metrics")).allow_compression(false),
        ))
        .spawn();

    otlp.emit(emit::evt!(
        "requests",
        evt_kind: "metric",
        metric_name: "requests",
        metric_agg: "count",
        metric_value: 42,
    ));

    assert!(otlp.blocking_flush(Duration::from_secs(30)));

    let bodies = bodies.lock().unwrap();
    let req: serde_json::Value = serde_json::from_slice(&bodies[0]).unwrap();
    let point = &req["resourceMetrics"][0]["scopeMetrics"][0]["metrics"][0]["sum"]["dataPoints"][0];

    assert!(
        point.get("asInt").is_some(),
        "the data point has no `asInt`: {point}"
    );
}

#[test]
fn user_property_collides_with_exception_message() {
    let (url, bodies) = collector();

    let otlp = emit_otlp::new()
        .logs(emit_otlp::logs_json(
            emit_otlp::http(url).allow_compression(false),
        ))
        .spawn();

    let err = std::io::Error::new(std::io::ErrorKind::Other, "the real error");

    otlp.emit(emit::evt!(
        "failed",
        err,
        #[emit::key("exception.message")] user: "set by the user",
    ));

    assert!(otlp.blocking_flush(Duration::from_secs(30)));

    let bodies = bodies.lock().unwrap();
    let req: serde_json::Value = serde_json::from_slice(&bodies[0]).unwrap();
    let attrs = req["resourceLogs"][0]["scopeLogs"][0]["logRecords"][0]["attributes"]
        .as_array()
        .unwrap();

    let n = attrs
        .iter()
        .filter(|kv| kv["key"] == "exception.message")
        .count();

    assert_eq!(1, n, "attribute keys aren't unique: {attrs:?}");
}
