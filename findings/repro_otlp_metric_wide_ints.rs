/*
C14, behaviour of the UNCHANGED tree that looks like a violation of the property.

1. `large_unsigned_metric_value_goes_to_metrics`: a metric sample whose value is numeric but doesn't
   fit in an `i64` (a `u64` above `i64::MAX`, also `u128`/`i128`) is declined by the metrics encoder
   (sval streams it as number text, which `Extract::text_begin` rejects) and is exported as a log record.
2. `events_dropped_by_failed_configuration_are_counted`: when configuration fails (`Otlp.inner` is
   `None`) every event is dropped but `event_discarded` stays at 0.

Copy to `emitter/otlp/tests/c14_found.rs` and run `cargo test -p emit_otlp --test c14_found --offline`.
Both tests FAIL on the unchanged tree.
*/

use std::{
    io::{Read, Write},
    net::TcpListener,
    sync::{Arc, Mutex},
    thread,
    time::Duration,
};

use emit::Emitter as _;

type Requests = Arc<Mutex<Vec<(String, String)>>>;

// A minimal HTTP/1.1 server that records `(path, body)` for each request and replies `200`
fn serve() -> (String, Requests) {
    let listener = TcpListener::bind("127.0.0.1:0").unwrap();
    let addr = format!("http://{}", listener.local_addr().unwrap());
    let requests = Requests::default();

    thread::spawn({
        let requests = requests.clone();

        move || {
            for stream in listener.incoming() {
                let Ok(mut stream) = stream else { continue };
                let requests = requests.clone();

                thread::spawn(move || {
                    let mut buf = Vec::new();
                    let mut chunk = [0u8; 4096];

                    loop {
                        // Read until we have a complete set of headers
                        let head_end = loop {
                            if let Some(i) = buf.windows(4).position(|w| w == b"\r\n\r\n") {
                                break i + 4;
                            }

                            match stream.read(&mut chunk) {
                                Ok(0) | Err(_) => return,
                                Ok(n) => buf.extend_from_slice(&chunk[..n]),
                            }
                        };

                        let head = String::from_utf8_lossy(&buf[..head_end]).into_owned();
                        let target = head.split_whitespace().nth(1).unwrap_or("");
                        // The request target may be in absolute form; only keep the path
                        let path = match target.strip_prefix("http://") {
                            Some(rest) => rest.find('/').map(|i| &rest[i..]).unwrap_or("/"),
                            None => target,
                        }
                        .to_owned();
                        let len = head
                            .lines()
                            .find_map(|l| {
                                let (k, v) = l.split_once(':')?;
                                k.eq_ignore_ascii_case("content-length")
                                    .then(|| v.trim().parse::<usize>().unwrap())
                            })
                            .unwrap_or(0);

                        while buf.len() < head_end + len {
                            match stream.read(&mut chunk) {
                                Ok(0) | Err(_) => return,
                                Ok(n) => buf.extend_from_slice(&chunk[..n]),
                            }
                        }

                        let body = String::from_utf8_lossy(&buf[head_end..head_end + len]).into_owned();
                        buf.drain(..head_end + len);

                        requests.lock().unwrap().push((path, body));

                        if stream
                            .write_all(b"HTTP/1.1 200 OK\r\ncontent-length: 0\r\n\r\n")
                            .is_err()
                        {
                            return;
                        }
                    }
                });
            }
        }
    });

    (addr, requests)
}

fn otlp(addr: &str) -> emit_otlp::Otlp {
    let transport =
        |path: &str| emit_otlp::http(format!("{addr}{path}")).allow_compression(false);

    emit_otlp::new()
        .logs(emit_otlp::logs_json(transport("/v1/logs")))
        .traces(emit_otlp::traces_json(transport("/v1/traces")))
        .metrics(emit_otlp::metrics_json(transport("/v1/metrics")))
        .spawn()
}

fn paths(requests: &Requests) -> Vec<String> {
    requests
        .lock()
        .unwrap()
        .iter()
        .map(|(path, _)| path.clone())
        .collect()
}

#[test]
fn large_unsigned_metric_value_goes_to_metrics() {
    let (addr, requests) = serve();
    let otlp = otlp(&addr);

    otlp.emit(emit::evt!(
        "{metric_agg} of {metric_name} is {metric_value}",
        evt_kind: "metric",
        metric_name: "c14_found_u64",
        metric_agg: "count",
        metric_value: u64::MAX,
    ));

    assert!(otlp.blocking_flush(Duration::from_secs(10)));

    assert_eq!(vec!["/v1/metrics".to_owned()], paths(&requests));
}

#[test]
fn events_dropped_by_failed_configuration_are_counted() {
    let otlp = emit_otlp::new()
        .logs(emit_otlp::logs_http_json("not a uri"))
        .spawn();

    assert_eq!(1, otlp.metric_source().configuration_failed());

    otlp.emit(emit::evt!("dropped"));

    assert_eq!(1, otlp.metric_source().event_discarded());
}
