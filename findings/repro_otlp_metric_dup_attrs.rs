// C13: OTLP metrics: attribute keys are not unique and `metric_unit` takes the LAST value when an event repeats a key
// (logs and traces de-duplicate with `props.dedup()`, the metrics encoder enumerates the raw props).
use std::io::{Read, Write};
use std::sync::{Arc, Mutex};
use std::time::Duration;
fn main() {
    let bodies: Arc<Mutex<Vec<String>>> = Arc::new(Mutex::new(vec![]));
    let listener = std::net::TcpListener::bind("127.0.0.1:0").unwrap();
    let addr = listener.local_addr().unwrap();
    let b2 = bodies.clone();
    std::thread::spawn(move || {
        for conn in listener.incoming() {
            let mut conn = conn.unwrap();
            let bodies = b2.clone();
            std::thread::spawn(move || {
                let mut buf: Vec<u8> = vec![];
                loop {
                    let (hdr_end, len) = loop {
                        if let Some(p) = buf.windows(4).position(|w| w == b"\r\n\r\n") {
                            let h = String::from_utf8_lossy(&buf[..p]).to_lowercase();
                            let len: usize = h.lines().find_map(|l| l.strip_prefix("content-length:").map(|v| v.trim().parse().unwrap())).unwrap_or(0);
                            break (p + 4, len);
                        }
                        let mut tmp = [0u8; 65536];
                        let n = conn.read(&mut tmp).unwrap_or(0);
                        if n == 0 { return; }
                        buf.extend_from_slice(&tmp[..n]);
                    };
                    while buf.len() < hdr_end + len {
                        let mut tmp = [0u8; 65536];
                        let n = conn.read(&mut tmp).unwrap_or(0);
                        if n == 0 { return; }
                        buf.extend_from_slice(&tmp[..n]);
                    }
                    bodies.lock().unwrap().push(String::from_utf8_lossy(&buf[hdr_end..hdr_end + len]).to_string());
                    buf.drain(..hdr_end + len);
                    conn.write_all(b"HTTP/1.1 200 OK\r\ncontent-length: 0\r\n\r\n").unwrap();
                }
            });
        }
    });
    let otlp = emit_otlp::new()
        .resource(emit::props! { #[emit::key("service.name")] service_name: "repro" })
        .metrics(emit_otlp::metrics_http_json(format!("http://{addr}/v1/metrics")))
        .spawn();
    let rt = emit::setup().emit_to(otlp).init();
    // the same key twice: an event property shadowing another one (e.g. ambient context) - first value wins everywhere else
    let props = [("region", emit::Value::from("first")), ("region", emit::Value::from("second")),
                 ("metric_unit", emit::Value::from("unit-first")), ("metric_unit", emit::Value::from("unit-second"))];
    emit::emit!(evt: emit::Metric::new(emit::path!("repro"), "requests", "count", emit::Empty, 3usize, props));
    let flushed = rt.blocking_flush(Duration::from_secs(10));
    let body = bodies.lock().unwrap().join("\n");
    let n_region = body.matches("\"key\":\"region\"").count();
    println!("C13 flushed = {flushed}; attribute key `region` appears {n_region} time(s) in the metrics payload (expected 1)");
    println!("C13 unit exported: {}", if body.contains("unit-second") { "unit-second (LAST value; expected the first)" } else if body.contains("unit-first") { "unit-first" } else { "none" });
    println!("{body}");
}
