// C11: a file-set template whose prefix contains a `.` (e.g. `app.debug.log`) starts a new file for every batch
use std::time::Duration;
fn files(dir: &std::path::Path) -> Vec<String> {
    let mut v: Vec<String> = std::fs::read_dir(dir).unwrap().map(|e| e.unwrap().file_name().to_string_lossy().to_string()).collect();
    v.sort(); v
}
fn run(dir: &std::path::Path, template: &str) -> usize {
    let _ = std::fs::remove_dir_all(dir);
    std::fs::create_dir_all(dir).unwrap();
    let f = emit_file::set(dir.join(template)).spawn();
    for i in 0..3 {
        emit::Emitter::emit(&f, emit::evt!("event {i}", i));
        emit::Emitter::blocking_flush(&f, Duration::from_secs(5)); // one batch per event
    }
    let n = files(dir).len();
    println!("C11 template {template}: 3 small batches in the same hour -> {n} file(s): {:?}", files(dir));
    n
}
fn main() {
    let dir = std::env::temp_dir().join(format!("emit_repro2_{}", std::process::id()));
    run(&dir.join("a"), "app.log");
    run(&dir.join("b"), "app.debug.log");
    let _ = std::fs::remove_dir_all(&dir);
}
