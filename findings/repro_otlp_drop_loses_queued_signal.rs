/*
FOUND on the UNCHANGED tree (C08, "when the last sender is dropped the receiver delivers what is
still queued ... and terminates"):

`OtlpBuilder::spawn_inner` (emitter/otlp/src/client.rs) runs one `Receiver::exec` per configured signal
inside a `FuturesUnordered` and then awaits `processors.into_future()`, which resolves as soon as the
FIRST receiver finishes. When the `Otlp` value is dropped all senders close; the receiver of a signal with
an empty queue returns on its next wake-up and that tears down the runtime together with the receivers of
the other signals, even though they still have a queued (or in-flight) batch.

This test configures logs + traces, emits a single span and drops the emitter. The span is expected to be
delivered to `/v1/traces`; on the unchanged tree it (usually) never is.
*/

use std::{
    io::{Read, Write},
    net::{TcpListener, TcpStream},
    sync::{
        atomic::{AtomicUsize, Ordering},
        Arc,
    },
    thread,
    time::{Duration, Instant},
};

use emit::Emitter;

fn read_request(stream: &mut TcpStream) -> Option<String> {
    let mut buf = Vec::new();
    let mut chunk = [0u8; 4096];

    let head_end = loop {
        if let Some(pos) = buf.windows(4).position(|w| w == b"\r\n\r\n") {
            break pos + 4;
        }

        let n = stream.read(&mut chunk).ok()?;
        if n == 0 {
            return None;
        }
        buf.extend_from_slice(&chunk[..n]);
    };

    let head = String::from_utf8_lossy(&buf[..head_end]).to_string();

    let content_length = head
        .lines()
        .find_map(|l| {
            let (k, v) = l.split_once(':')?;
            k.eq_ignore_ascii_case("content-length")
                .then(|| v.trim().parse::<usize>().ok())?
        })
        .unwrap_or(0);

    while buf.len() < head_end + content_length {
        let n = stream.read(&mut chunk).ok()?;
        if n == 0 {
            return None;
        }
        buf.extend_from_slice(&chunk[..n]);
    }

    Some(head)
}

fn serve(traces: Arc<AtomicUsize>) -> u16 {
    let listener = TcpListener::bind("127.0.0.1:0").unwrap();
    let port = listener.local_addr().unwrap().port();

    thread::spawn(move || {
        for stream in listener.incoming() {
            let Ok(mut stream) = stream else { continue };
            let traces = traces.clone();

            thread::spawn(move || {
                while let Some(head) = read_request(&mut stream) {
                    if head.lines().next().unwrap_or("").contains("/v1/traces") {
                        traces.fetch_add(1, Ordering::SeqCst);
                    }

                    let _ = stream.write_all(b"HTTP/1.1 200 OK\r\ncontent-length: 0\r\n\r\n");
                    let _ = stream.flush();
                }
            });
        }
    });

    port
}

#[test]
fn dropping_otlp_delivers_the_queued_span() {
    run(true)
}

// Control: with only the traces signal configured the queued span IS delivered on drop
#[test]
fn control_single_signal_delivers_the_queued_span() {
    run(false)
}

fn run(with_logs: bool) {
    let mut lost = 0;

    for _ in 0..10 {
        let traces = Arc::new(AtomicUsize::new(0));
        let port = serve(traces.clone());

        let mut builder = emit_otlp::new();

        if with_logs {
            builder = builder.logs(emit_otlp::logs_http_proto(format!(
                "http://127.0.0.1:{port}/v1/logs"
            )));
        }

        let otlp = builder
            .traces(emit_otlp::traces_http_proto(format!(
                "http://127.0.0.1:{port}/v1/traces"
            )))
            .spawn();

        // Let the idle back-off of the receivers grow a little, as in a quiet application
        thread::sleep(Duration::from_millis(100));

        otlp.emit(emit::evt!(
            extent: emit::Timestamp::from_unix(Duration::from_secs(1)).unwrap()
                ..emit::Timestamp::from_unix(Duration::from_secs(2)).unwrap(),
            "a span event",
            evt_kind: "span",
            span_name: "test",
            trace_id: "00000000000000000000000000000001",
            span_id: "0000000000000001",
        ));

        // The last sender of every signal goes away here
        drop(otlp);

        // The traces receiver should still deliver what is queued
        let start = Instant::now();
        while traces.load(Ordering::SeqCst) == 0 && start.elapsed() < Duration::from_secs(3) {
            thread::sleep(Duration::from_millis(10));
        }

        if traces.load(Ordering::SeqCst) == 0 {
            lost += 1;
        }
    }

    assert_eq!(0, lost, "{lost} of 10 queued spans were never delivered after drop");
}
