use emit::template::Part;
use emit::Template;
fn catch<R>(name: &str, f: impl FnOnce() -> R + std::panic::UnwindSafe) -> Option<R> {
    match std::panic::catch_unwind(f) { Ok(r) => Some(r), Err(_) => { println!("{name}: PANIC"); None } }
}
fn main() {
    std::panic::set_hook(Box::new(|_| {}));
    let a = [Part::text("\u{e9}")]; let b = [Part::text("x"), Part::text("y")];
    println!("C16 tpl ['é'] == ['x','y'] : {:?}", catch("tpl", || Template::new_ref(&a) == Template::new_ref(&b)));
    let a = [Part::text(""), Part::hole("c")]; let b = [Part::hole("c")];
    println!("C16 tpl ['',{{c}}] == [{{c}}] : {:?}", catch("tpl2", || Template::new_ref(&a) == Template::new_ref(&b)));
    for s in ["1970-01-01T00:00:00Z", "2024-+1-01T00:00:00.0Z", "2024x01y01z00:00:00.0Z", "2024-01-01T00:00:00.+1Z", "2024-01-01 00:00:00.5Z", "2024-01-01T00:00:00.Z", "2024-01-01T00:00:00.xZ", "2024-00-01T00:00:00.0Z", "2024-01-00T00:00:00.0Z"] {
        let s2 = s.to_string();
        println!("C15 parse {s}: {:?}", catch(s, move || emit::Timestamp::try_from_str(&s2).map(|t| t.to_string()).map_err(|_| ())));
    }
    let ts = emit::Timestamp::from_unix(std::time::Duration::new(0, 0)).unwrap();
    let f = format!("{:.0}", ts);
    let f2 = f.clone();
    println!("C15 fmt(.0)={f} reparse: {:?}", catch("rt", move || emit::Timestamp::try_from_str(&f2).is_ok()));
    for p in ["a:b:c", "a::b", "a:b", "1a", "a::1b", "_x"] {
        println!("C15 is_valid_path({p}) = {:?}", emit::path::is_valid_path(p));
    }
    println!("C15 from_parts(months 0): {:?}", catch("fp", || emit::Timestamp::from_parts(emit::timestamp::Parts{years:2024,months:0,days:1,hours:0,minutes:0,seconds:0,nanos:0}).map(|t| t.to_string())));
    {
        use emit::Props;
        let p = emit::props!{ #[emit::key("z")] a: 1, b: 2 };
        let mut keys = vec![]; let _ = p.for_each(|k, _| { keys.push(k.to_string()); std::ops::ControlFlow::Continue(()) });
        println!("C02 props!{{#[key(z)] a, b}} enumerates {:?}; get(z) = {:?}; get(b) = {:?}", keys, p.get("z").map(|v| v.to_string()), p.get("b").map(|v| v.to_string()));
    }
}
