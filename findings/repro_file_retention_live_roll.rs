// C11: "After every batch the set holds at most the configured maximum number of files" - a live worker that rolls
// (size limit) never applies retention: the directory is only listed when there is no active file.
use std::time::Duration;
fn main() {
    let dir = std::env::temp_dir().join(format!("emit_repro3_{}", std::process::id()));
    let _ = std::fs::remove_dir_all(&dir);
    std::fs::create_dir_all(&dir).unwrap();
    let f = emit_file::set(dir.join("app.log")).max_files(2).max_file_size_bytes(50).spawn();
    for i in 0..6 {
        emit::Emitter::emit(&f, emit::evt!("event number {i} with enough text to pass the size limit", i));
        emit::Emitter::blocking_flush(&f, Duration::from_secs(5)); // one batch per event, each one rolls
        std::thread::sleep(Duration::from_millis(5));
        let n = std::fs::read_dir(&dir).unwrap().count();
        println!("C11 max_files(2): after batch {i} the set holds {n} file(s)");
    }
    let _ = std::fs::remove_dir_all(&dir);
}
