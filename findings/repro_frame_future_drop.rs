// A frame-wrapped future that is dropped before it completes (a cancelled async span) must drop its
// inner future INSIDE the frame: whatever the inner future finishes on drop (a span guard completing)
// has to see the frame's properties / ids, not the enclosing ones.
use std::{cell::Cell, future::Future, pin::Pin, task::{Context, Poll, RawWaker, RawWakerVTable, Waker}};
use emit::{Ctxt, Frame, Props};
use emit::platform::thread_local_ctxt::ThreadLocalCtxt;

fn noop_waker() -> Waker {
    fn clone(_: *const ()) -> RawWaker { RawWaker::new(std::ptr::null(), &VTABLE) }
    fn noop(_: *const ()) {}
    static VTABLE: RawWakerVTable = RawWakerVTable::new(clone, noop, noop, noop);
    unsafe { Waker::from_raw(RawWaker::new(std::ptr::null(), &VTABLE)) }
}

struct Pending;
impl Future for Pending { type Output = (); fn poll(self: Pin<&mut Self>, _: &mut Context<'_>) -> Poll<()> { Poll::Pending } }

struct SeeOnDrop<'a>(&'a ThreadLocalCtxt, &'a Cell<Option<i32>>);
impl<'a> Drop for SeeOnDrop<'a> {
    fn drop(&mut self) { self.0.with_current(|props| self.1.set(props.pull::<i32, _>("a"))) }
}

#[test]
fn cancelled_frame_future_drops_its_future_inside_the_frame() {
    let ctxt = ThreadLocalCtxt::new();
    let seen = Cell::new(None);
    {
        let outer = Frame::push(&ctxt, ("a", 1));
        outer.call(|| {
            let inner = Frame::push(&ctxt, ("a", 2));
            let guard = SeeOnDrop(&ctxt, &seen);
            let mut fut = Box::pin(inner.in_future(async move { let _guard = guard; Pending.await }));
            let waker = noop_waker();
            let mut cx = Context::from_waker(&waker);
            assert!(fut.as_mut().poll(&mut cx).is_pending());
            // cancelled: dropped while suspended, still inside the OUTER frame
            drop(fut);
        });
    }
    assert_eq!(Some(2), seen.get(), "the inner future was dropped outside its frame");
    // and nothing leaks afterwards
    ctxt.with_current(|props| assert!(props.pull::<i32, _>("a").is_none()));
}
