use std::sync::Mutex;

use emit::{Emitter, Filter, Props};

static SEEN: Mutex<Vec<String>> = Mutex::new(Vec::new());

struct Rec;

impl Emitter for Rec {
    fn emit<E: emit::event::ToEvent>(&self, evt: E) {
        let evt = evt.to_event();
        SEEN.lock().unwrap().push(format!(
            "{} lvl={:?}",
            evt.msg(),
            evt.props().pull::<emit::Level, _>("lvl")
        ));
    }

    fn blocking_flush(&self, _: std::time::Duration) -> bool {
        true
    }
}

static RT: emit::runtime::Runtime<
    Rec,
    emit::level::MinLevelFilter,
    emit::platform::thread_local_ctxt::ThreadLocalCtxt,
    emit::platform::system_clock::SystemClock,
    emit::platform::rand_rng::RandRng,
> = emit::runtime::Runtime::build(
    Rec,
    emit::level::MinLevelFilter::new(emit::Level::Info),
    emit::platform::thread_local_ctxt::ThreadLocalCtxt::shared(),
    emit::platform::system_clock::SystemClock::new(),
    emit::platform::rand_rng::RandRng::new(),
);

#[emit::info_span(rt: RT, "work")]
fn work() {}

#[test]
fn span_filter_sees_lvl_last() {
    // Without an ambient `lvl`
    work();

    // With an ambient `lvl: debug`
    emit::Frame::push(RT.ctxt(), emit::props! { lvl: emit::Level::Debug }).call(|| {
        work();
        emit::info!(rt: RT, "plain event");
    });

    let seen = SEEN.lock().unwrap().clone();
    println!("{seen:#?}");
    assert_eq!(3, seen.len(), "{seen:?}");
}
