// C13: OTLP logs: attribute keys are NOT unique when an event carries an `err` AND a property whose key is one of the
// attributes `err` is turned into (`exception.message`, and `exception.stacktrace` when the error has a source): the log
// record then has two attributes with that key (log_record.rs:117-129 streams the synthesized attribute without looking
// at the other properties). Found by unit otlp_log_record (obligation `attribute keys pairwise distinct`, open known
// finding: a repair has to decide which of the two wins). Public API only; a local HTTP collector captures the JSON
// request body. Run as an example of emitter/otlp without gzip: copy to emitter/otlp/examples/, then
// `cargo run -p emit_otlp --no-default-features --example repro_otlp_duplicate_exception_key` (exit 1 = duplicate key).
use std::io::{Read, Write};
use std::sync::{Arc, Mutex};
use std::time::Duration;

fn collector() -> (std::net::SocketAddr, Arc<Mutex<Vec<(String, String)>>>) {
    let bodies: Arc<Mutex<Vec<(String, String)>>> = Arc::new(Mutex::new(vec![]));
    let listener = std::net::TcpListener::bind("127.0.0.1:0").unwrap();
    let addr = listener.local_addr().unwrap();
    let b2 = bodies.clone();
    std::thread::spawn(move || {
        for conn in listener.incoming() {
            let mut conn = conn.unwrap();
            let bodies = b2.clone();
            std::thread::spawn(move || {
                let mut buf: Vec<u8> = vec![];
                loop {
                    let (hdr_end, len, path) = loop {
                        if let Some(p) = buf.windows(4).position(|w| w == b"\r\n\r\n") {
                            let h = String::from_utf8_lossy(&buf[..p]).to_string();
                            let path = h.lines().next().unwrap_or("").split(' ').nth(1).unwrap_or("").to_string();
                            let len: usize = h.to_lowercase().lines().find_map(|l| l.strip_prefix("content-length:").map(|v| v.trim().parse().unwrap())).unwrap_or(0);
                            break (p + 4, len, path);
                        }
                        let mut tmp = [0u8; 65536];
                        let n = conn.read(&mut tmp).unwrap_or(0);
                        if n == 0 { return; }
                        buf.extend_from_slice(&tmp[..n]);
                    };
                    while buf.len() < hdr_end + len {
                        let mut tmp = [0u8; 65536];
                        let n = conn.read(&mut tmp).unwrap_or(0);
                        if n == 0 { return; }
                        buf.extend_from_slice(&tmp[..n]);
                    }
                    bodies.lock().unwrap().push((path, String::from_utf8_lossy(&buf[hdr_end..hdr_end + len]).to_string()));
                    buf.drain(..hdr_end + len);
                    conn.write_all(b"HTTP/1.1 200 OK\r\ncontent-length: 0\r\n\r\n").unwrap();
                }
            });
        }
    });
    (addr, bodies)
}

fn main() {
    let (addr, bodies) = collector();
    let otlp = emit_otlp::new()
        .resource(emit::props! { #[emit::key("service.name")] service_name: "repro" })
        .logs(emit_otlp::logs_http_json(format!("http://{addr}/v1/logs")))
        .spawn();
    let rt = emit::setup().emit_to(otlp).init();

    // an error AND a user property named like the attribute the error is turned into
    emit::emit!("failed: {err}", err: "the error", #[emit::key("exception.message")] m: "user supplied");
    let flushed = rt.blocking_flush(Duration::from_secs(10));

    let bodies = bodies.lock().unwrap();
    let logs: String = bodies.iter().map(|(_, b)| b.clone()).collect();
    let n = logs.matches("\"key\":\"exception.message\"").count();
    println!("C13 flushed = {flushed}; attribute key `exception.message` appears {n} time(s) in the log record (expected 1: attribute keys are unique)");
    println!("{logs}");
    if n != 1 { std::process::exit(1); }
}
