use emit::Props;
fn main() {
    let p = emit::props!{ #[emit::key("b")] a: 1, b: 2 };
    let mut keys = vec![]; let _ = p.for_each(|k, v| { keys.push(format!("{k}={v}")); std::ops::ControlFlow::Continue(()) });
    println!("C02 props!{{#[key(b)] a:1, b:2}} enumerates {:?}; is_unique = {}; get(b) = {:?}", keys, p.is_unique(), p.get("b").map(|v| v.to_string()));
    let p = emit::props!{ #[emit::key("z")] a: 1, b: 2 };
    let mut keys = vec![]; let _ = p.for_each(|k, v| { keys.push(format!("{k}={v}")); std::ops::ControlFlow::Continue(()) });
    println!("C02 props!{{#[key(z)] a:1, b:2}} enumerates {:?}; is_unique = {}; get(z) = {:?} get(b) = {:?}", keys, p.is_unique(), p.get("z").map(|v| v.to_string()), p.get("b").map(|v| v.to_string()));
}
