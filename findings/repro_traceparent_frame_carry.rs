// Repro for the finding 'a captured frame does not carry the traceparent' (F28, fixed in /repo ccac777; contract: open_post + lemma_open_carries in specs/traceparent_step.vx; repair findings/fix_traceparent_frame_carry.diff).
// Copy to <worktree>/traceparent/tests/ and run: cargo test -p emit_traceparent --test repro_traceparent_frame_carry
// Unchanged tree: FAILS (SpanCtxt::current on the other thread is empty). With the repair: passes.
// Source: independent reviewers' round-5 side finding (C04-out/found/c04_found_traceparent.rs); see also C18-out/found (sampler runs a 2nd time inside an unsampled trace).
/*
C04 side finding on the UNCHANGED tree (emit_traceparent).

Copy to `<worktree>/traceparent/tests/c04_found_traceparent.rs` and run
`cargo test -p emit_traceparent --test c04_found_traceparent`.

Finding 3: with `TraceparentCtxt`, the trace/span ids live in a thread-local traceparent slot
rather than in the wrapped context (they're stripped from the props passed to the inner `Ctxt`).
A frame only carries that slot when the props pushed with it contain a *new* span id, so a frame
captured with `Frame::current` (the documented way to continue a span on another thread or in a
spawned task) carries no ids at all. Spans and events on the other thread are detached from the
trace: they get no ids / start a brand new trace.
*/

use std::thread;

use emit::{
    platform::{rand_rng::RandRng, thread_local_ctxt::ThreadLocalCtxt},
    Frame, SpanCtxt,
};

use emit_traceparent::TraceparentCtxt;

#[test]
fn captured_frame_carries_ids_to_another_thread() {
    let rng = RandRng::new();
    let ctxt = TraceparentCtxt::new(ThreadLocalCtxt::new());

    let span_frame = SpanCtxt::current(&ctxt).new_child(&rng).push(ctxt.clone());

    span_frame.call(|| {
        let outer = SpanCtxt::current(&ctxt);

        assert!(outer.trace_id().is_some());
        assert!(outer.span_id().is_some());

        // Capture the current context to continue on another thread
        let carried = Frame::current(ctxt.clone());

        thread::spawn(move || {
            carried.call(|| {
                let current = SpanCtxt::current(&ctxt);

                assert_eq!(
                    outer, current,
                    "the carried frame lost the ids of the span it was captured in"
                );

                let child = current.new_child(&rng);

                assert_eq!(outer.trace_id(), child.trace_id());
                assert_eq!(outer.span_id(), child.span_parent());
            })
        })
        .join()
        .unwrap();
    });
}
