/*!
Observations on the UNCHANGED tree (both tests FAIL on it).

1. `reuse_skips_retention`: with `reuse_files(true)`, when the newest file of the set is
   reopened after a restart and the batch fits in it, no new file is created and so
   retention never runs. A directory that already holds more than `max_files` files of the
   set (e.g. `max_files` was lowered between runs) still holds all of them after the batch.

2. `reuse_separator_not_counted`: the fit check is `file_size + batch_bytes <= limit`, but
   a reused file first gets a defensive separator written to it, which isn't counted. A
   40 byte file with an 80 byte limit takes a 40 byte batch and ends up 81 bytes.
*/

use std::{fs, path::PathBuf, time::Duration};

use emit::Emitter;

fn fresh_dir(name: &str) -> PathBuf {
    let mut dir = std::env::temp_dir();
    dir.push(format!("emit_file_c11_{}_{}", name, std::process::id()));

    let _ = fs::remove_dir_all(&dir);
    fs::create_dir_all(&dir).unwrap();

    dir
}

// Write a single 40 byte batch through a freshly spawned file set
fn run_once(dir: &PathBuf, max_files: usize, max_file_size_bytes: usize) {
    let files = emit_file::set_with_writer(
        dir.join("app.log"),
        |buf, _| {
            buf.extend_from_slice(b"012345678901234567890123456789012345678");
            Ok(())
        },
        b"\n",
    )
    .roll_by_day()
    .reuse_files(true)
    .max_files(max_files)
    .max_file_size_bytes(max_file_size_bytes)
    .spawn();

    files.emit(emit::Event::new(
        emit::Path::new_raw("c11"),
        emit::Template::literal("event"),
        emit::Empty,
        emit::Empty,
    ));

    assert!(files.blocking_flush(Duration::from_secs(10)));
}

fn file_sizes(dir: &PathBuf) -> Vec<(String, u64)> {
    let mut files = fs::read_dir(dir)
        .unwrap()
        .map(|e| {
            let e = e.unwrap();
            (
                e.file_name().into_string().unwrap(),
                e.metadata().unwrap().len(),
            )
        })
        .collect::<Vec<_>>();
    files.sort();
    files
}

#[test]
fn reuse_skips_retention() {
    let dir = fresh_dir("found_retention");

    // Four old files of this set, plus the one the first run creates
    for day in 1..=4 {
        fs::write(
            dir.join(format!("app.2000-01-0{day}.00000000.00000000.log")),
            b"old\n",
        )
        .unwrap();
    }

    run_once(&dir, 10, 1024);
    assert_eq!(5, file_sizes(&dir).len());

    // Restart with a lower maximum; the batch fits in the newest file
    run_once(&dir, 2, 1024);

    let files = file_sizes(&dir);

    assert!(
        files.len() <= 2,
        "max_files is 2 but the set holds {} files after the batch: {files:?}",
        files.len()
    );
}

#[test]
fn reuse_separator_not_counted() {
    let dir = fresh_dir("found_separator");

    run_once(&dir, 10, 80);
    std::thread::sleep(Duration::from_millis(5));
    run_once(&dir, 10, 80);

    let files = file_sizes(&dir);

    for (name, size) in &files {
        assert!(
            *size <= 80,
            "{name} is {size} bytes, past the 80 byte limit: {files:?}"
        );
    }
}
