/*
FOUND on the UNCHANGED tree (C08, "a blocking flush or blocking send returns within its timeout from any
calling context - plain thread, tokio multi-thread worker, tokio current-thread runtime - without panicking"):

`emit_batcher::tokio::blocking_flush` / `blocking_send` (batcher/src/tokio.rs, re-exported as
`emit_batcher::blocking_flush` / `blocking_send` with the `tokio` feature, and used by emit_otlp / emit_file)
call `Handle::block_on` directly whenever `Handle::try_current()` succeeds. Inside a task or inside
`Runtime::block_on` (i.e. in `#[tokio::main] async fn main`) tokio panics with
"Cannot start a runtime from within a runtime". The doc comment still claims `block_in_place` is used.

Run with: cargo test -p emit_batcher --features tokio --offline --test found_tokio_blocking_in_async_context
Unchanged tree: plain_thread and entered_handle_only pass; multi_thread_worker, current_thread_runtime,
blocking_send_multi_thread_worker fail with the panic above.
*/
#![cfg(feature = "tokio")]

use std::time::Duration;

fn setup() -> (emit_batcher::Sender<Vec<u32>>, std::thread::JoinHandle<()>) {
    let (sender, receiver) = emit_batcher::bounded::<Vec<u32>>(4);

    let handle = emit_batcher::tokio::spawn("worker", receiver, |_batch| async move {
        tokio::time::sleep(Duration::from_millis(20)).await;
        Ok(())
    })
    .unwrap();

    (sender, handle)
}

#[test]
fn plain_thread() {
    let (sender, handle) = setup();
    sender.send(1);
    assert!(emit_batcher::blocking_flush(&sender, Duration::from_secs(2)));
    drop(sender);
    handle.join().unwrap();
}

#[test]
fn entered_handle_only() {
    let rt = tokio::runtime::Builder::new_multi_thread()
        .worker_threads(1)
        .enable_all()
        .build()
        .unwrap();
    let _guard = rt.enter();

    let (sender, _handle) = setup();
    sender.send(1);
    assert!(emit_batcher::blocking_flush(&sender, Duration::from_secs(2)));
}

#[test]
fn multi_thread_worker() {
    let rt = tokio::runtime::Builder::new_multi_thread()
        .worker_threads(2)
        .enable_all()
        .build()
        .unwrap();

    let flushed = rt.block_on(async {
        tokio::spawn(async {
            let (sender, _handle) = setup();
            sender.send(1);
            emit_batcher::blocking_flush(&sender, Duration::from_secs(2))
        })
        .await
    });

    assert!(flushed.expect("blocking_flush panicked on a multi-thread worker"));
}

#[test]
fn blocking_send_multi_thread_worker() {
    let rt = tokio::runtime::Builder::new_multi_thread()
        .worker_threads(2)
        .enable_all()
        .build()
        .unwrap();

    let sent = rt.block_on(async {
        tokio::spawn(async {
            let (sender, _handle) = setup();
            emit_batcher::blocking_send(&sender, 1, Duration::from_secs(2)).is_ok()
        })
        .await
    });

    assert!(sent.expect("blocking_send panicked on a multi-thread worker"));
}

#[test]
fn current_thread_runtime() {
    let rt = tokio::runtime::Builder::new_current_thread()
        .enable_all()
        .build()
        .unwrap();

    let flushed = rt.block_on(async {
        let (sender, _handle) = setup();
        sender.send(1);
        emit_batcher::blocking_flush(&sender, Duration::from_secs(2))
    });

    assert!(flushed);
}
