// C13: OTLP logs / traces: a well-known property whose value does NOT have the expected shape vanishes - it is neither
// lifted into its dedicated field nor streamed as an attribute ("every other property appears exactly once under its key
// with its first value"). `trace_id: "not-hex"`, `span_id: "xyz"`, `lvl: "bogus"` on a log event; `span_parent: "zz"`,
// `trace_id: "nope"` on a span. Found by units otlp_log_record / otlp_span_record (strict clause: a well-known key is
// lifted IFF its value casts, otherwise it is an ordinary attribute). Public API only; a local HTTP collector captures the
// JSON request bodies. Run as an example of emitter/otlp without gzip: copy to emitter/otlp/examples/, then
// `cargo run -p emit_otlp --no-default-features --example repro_otlp_wellknown_dropped` (exit 1 = properties lost).
use std::io::{Read, Write};
use std::sync::{Arc, Mutex};
use std::time::Duration;

fn collector() -> (std::net::SocketAddr, Arc<Mutex<Vec<(String, String)>>>) {
    let bodies: Arc<Mutex<Vec<(String, String)>>> = Arc::new(Mutex::new(vec![]));
    let listener = std::net::TcpListener::bind("127.0.0.1:0").unwrap();
    let addr = listener.local_addr().unwrap();
    let b2 = bodies.clone();
    std::thread::spawn(move || {
        for conn in listener.incoming() {
            let mut conn = conn.unwrap();
            let bodies = b2.clone();
            std::thread::spawn(move || {
                let mut buf: Vec<u8> = vec![];
                loop {
                    let (hdr_end, len, path) = loop {
                        if let Some(p) = buf.windows(4).position(|w| w == b"\r\n\r\n") {
                            let h = String::from_utf8_lossy(&buf[..p]).to_string();
                            let path = h.lines().next().unwrap_or("").split(' ').nth(1).unwrap_or("").to_string();
                            let len: usize = h.to_lowercase().lines().find_map(|l| l.strip_prefix("content-length:").map(|v| v.trim().parse().unwrap())).unwrap_or(0);
                            break (p + 4, len, path);
                        }
                        let mut tmp = [0u8; 65536];
                        let n = conn.read(&mut tmp).unwrap_or(0);
                        if n == 0 { return; }
                        buf.extend_from_slice(&tmp[..n]);
                    };
                    while buf.len() < hdr_end + len {
                        let mut tmp = [0u8; 65536];
                        let n = conn.read(&mut tmp).unwrap_or(0);
                        if n == 0 { return; }
                        buf.extend_from_slice(&tmp[..n]);
                    }
                    bodies.lock().unwrap().push((path, String::from_utf8_lossy(&buf[hdr_end..hdr_end + len]).to_string()));
                    buf.drain(..hdr_end + len);
                    conn.write_all(b"HTTP/1.1 200 OK\r\ncontent-length: 0\r\n\r\n").unwrap();
                }
            });
        }
    });
    (addr, bodies)
}

fn has_attr(body: &str, key: &str) -> bool { body.contains(&format!("\"key\":\"{key}\"")) }

fn main() {
    let (addr, bodies) = collector();
    let otlp = emit_otlp::new()
        .resource(emit::props! { #[emit::key("service.name")] service_name: "repro" })
        .logs(emit_otlp::logs_http_json(format!("http://{addr}/v1/logs")))
        .traces(emit_otlp::traces_http_json(format!("http://{addr}/v1/traces")))
        .spawn();
    let rt = emit::setup().emit_to(otlp).init();

    // a log event: three well-known keys with values of the wrong shape, one ordinary property
    emit::emit!("log event", trace_id: "not-hex", span_id: "xyz", lvl: "bogus", user: "u1");
    // a span: parent and trace id of the wrong shape, a good span id
    let start = emit::Timestamp::from_unix(Duration::from_secs(1)).unwrap();
    let end = emit::Timestamp::from_unix(Duration::from_secs(2)).unwrap();
    emit::emit!(
        evt: emit::Event::new(
            emit::path!("repro"),
            emit::tpl!("span event"),
            start..end,
            emit::props! { evt_kind: "span", span_name: "work", span_parent: "zz", trace_id: "nope", span_id: "0000000000000001", user: "u2" },
        )
    );
    let flushed = rt.blocking_flush(Duration::from_secs(10));

    let bodies = bodies.lock().unwrap();
    let logs: String = bodies.iter().filter(|(p, _)| p.contains("logs")).map(|(_, b)| b.clone()).collect();
    let traces: String = bodies.iter().filter(|(p, _)| p.contains("traces")).map(|(_, b)| b.clone()).collect();
    println!("C13 flushed = {flushed}");
    let mut lost = 0;
    for (signal, body, key, lifted) in [
        ("log", &logs, "user", false), ("log", &logs, "trace_id", body_has_field(&logs, "traceId")), ("log", &logs, "span_id", body_has_field(&logs, "spanId")),
        ("log", &logs, "lvl", logs.contains("\"severityText\":\"bogus\"")),
        ("span", &traces, "user", false), ("span", &traces, "span_parent", body_has_field(&traces, "parentSpanId")), ("span", &traces, "trace_id", body_has_field(&traces, "traceId")),
    ] {
        let attr = has_attr(body, key);
        let verdict = if attr || lifted { "kept" } else { lost += 1; "LOST (neither dedicated field nor attribute)" };
        println!("C13 {signal}: property `{key}`: attribute = {attr}, dedicated field = {lifted}: {verdict}");
    }
    println!("C13 well-known properties lost: {lost} (expected 0)");
    println!("{logs}\n{traces}");
    if lost > 0 { std::process::exit(1); }
}

fn body_has_field(body: &str, field: &str) -> bool { body.contains(&format!("\"{field}\":")) }
