use std::sync::atomic::{AtomicUsize, Ordering};
static FIRED: AtomicUsize = AtomicUsize::new(0);
fn main() {
    // a span rejected by its filter, then given another completion
    let (guard, frame) = emit::span::SpanGuard::new(
        emit::filter::from_fn(|_| false), emit::Empty, emit::Empty, emit::Empty,
        emit::span::completion::from_fn(|_| { FIRED.fetch_add(1, Ordering::SeqCst); }),
        emit::Empty, emit::path!("m"), "s", emit::Empty);
    println!("C05 filtered-out guard: is_enabled = {}", guard.is_enabled());
    frame.call(move || {
        let mut guard = guard.with_completion(emit::span::completion::from_fn(|_| { FIRED.fetch_add(1, Ordering::SeqCst); }));
        println!("C05 after with_completion: is_enabled = {}", guard.is_enabled());
        guard.start();
    });
    println!("C05 completions fired for a filtered-out span = {}", FIRED.load(Ordering::SeqCst));
}
