// C03/C02: a frame pushed with a duplicated key shows the LAST value, while every other props collection shows the FIRST
use emit::{Ctxt, Frame, Props};
fn main() {
    let ctxt = emit::platform::thread_local_ctxt::ThreadLocalCtxt::new();
    let own = [("a", 1), ("a", 2)];
    println!("C02 own props get(a) = {:?}", own.pull::<i32, _>("a"));
    let v = Frame::push(&ctxt, &own).call(|| ctxt.with_current(|p| p.pull::<i32, _>("a")));
    println!("C03 pushed frame shows a = {:?}", v);
    let v = Frame::root(&ctxt, &own).call(|| ctxt.with_current(|p| p.pull::<i32, _>("a")));
    println!("C03 root frame shows a = {:?}", v);
    // own ++ ambient: own must win
    let v = Frame::push(&ctxt, [("a", 1)]).call(|| Frame::push(&ctxt, [("a", 5)]).call(|| ctxt.with_current(|p| p.pull::<i32, _>("a"))));
    println!("C03 nested push own=5 over ambient=1 shows a = {:?}", v);
}
