// C11: (a) max_files(1) panics the worker; (b) a file set adopts (and deletes) files of a sibling set whose prefix extends its own.
use std::time::Duration;
fn files(dir: &std::path::Path) -> Vec<String> {
    let mut v: Vec<String> = std::fs::read_dir(dir).unwrap().map(|e| e.unwrap().file_name().to_string_lossy().to_string()).collect();
    v.sort(); v
}
fn main() {
    let dir = std::env::temp_dir().join(format!("emit_repro_{}", std::process::id()));
    let _ = std::fs::remove_dir_all(&dir);
    std::fs::create_dir_all(&dir).unwrap();
    // (b) a sibling set `app2` writes one file first
    {
        let f = emit_file::set(dir.join("app2.log")).spawn();
        emit::Emitter::emit(&f, emit::evt!("from app2")); let rt = &f;
        emit::Emitter::blocking_flush(rt, Duration::from_secs(5));
    }
    println!("C11 after app2 wrote: {:?}", files(&dir));
    {
        let f = emit_file::set(dir.join("app.log")).max_files(2).reuse_files(false).spawn();
        emit::Emitter::emit(&f, emit::evt!("from app")); let rt = &f;
        emit::Emitter::blocking_flush(rt, Duration::from_secs(5));
    }
    println!("C11 after app (max_files 2) wrote one event: {:?}", files(&dir));
    // (a) max_files(1)
    let dir1 = dir.join("one");
    std::fs::create_dir_all(&dir1).unwrap();
    {
        let f = emit_file::set(dir1.join("solo.log")).max_files(1).spawn();
        emit::Emitter::emit(&f, emit::evt!("only event")); let rt = &f;
        let ok = emit::Emitter::blocking_flush(rt, Duration::from_secs(3));
        println!("C11 max_files(1): flush = {ok}, files = {:?}", files(&dir1));
    }
    let _ = std::fs::remove_dir_all(&dir);
}
