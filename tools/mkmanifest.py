#!/usr/bin/env python3
"""Regenerates /verif/MANIFEST.json from the table below (kept in one place so the manifest is always valid)."""
import json, os, subprocess
V = os.path.dirname(os.path.dirname(os.path.abspath(__file__)))

WIP = "contracts not completed yet in this build (see DESIGN.md section 12); not claimed until its units verify on the unchanged tree"

# id -> (claimed, level, text, note, technique, design_ref)
P = {
 "C01": (True, "proof",
         "Verus proves every pure Filter combinator (real bodies) equal to its logical definition under a trait-level contract, modularly for arbitrary children; "
         "Kani proves on the real crates, with oracle filter/emitter/context/clock children and full-domain symbolic values, the emit pipeline contract (filter consulted once on the fully built event; emitter receives exactly that event once iff accepted; when-filter replaces the runtime filter) and every emitter combinator incl. the type-erased paths; Verus proves Runtime / Setup builders replace exactly their own component and that each of the six init functions calls slot.init exactly once with all five configured components on the right slot (emit_setup)",
         "trusted: ToEvent/Event mirror in the Verus unit; Kani harnesses use one own + one ambient-only + one shared key (emit is parametric in Props); structural induction over combinator trees is a meta-argument for Kani-proved combinators; closure leaves (FromFn) are oracles; AmbientSlot::init/get are logged external mirrors (type erasure)",
         "contract-based deductive verification (Verus trait contracts on extracted impls; Kani oracle-children contracts)", "8 C01"),
 "C02": (True, "proof",
         "Verus proves on the real bodies that get == first(enumeration) and is_unique ==> no duplicate keys for &P, Empty, And, AsMap, Dedup, (K,V) and the macro-built props (no sortedness assumption), and proves each for_each's exact call sequence (prefix of the same kvs, stops at first Break) for 16 collection types",
         "trusted: Str/Value mirrors with byte-content equality and lexicographic order; default Props::get (closure capturing &mut) is an external_body stub under the trait contract, exercised by a BOUNDED Kani harness (3 entries, concrete keys) as is dyn ErasedProps; Dedup::for_each (closure capturing &mut a BTreeMap; a Kani harness timed out), std maps, macro expansion not covered",
         "contract-based deductive verification (Verus on mechanically extracted functions, ghost call traces)", "8 C02"),
 "C03": (True, "proof",
         "Kani proves on the real Frame/FrameFuture/Ctxt forwarders (oracle context logging every operation) enter-scope-exit-close exactly once in order for call/enter/with/poll, default open_push/open_disabled, that every forwarding / erased context dispatches open_root/open_push/open_disabled to the same method, and the erased paths incl. ErasedFrame inline and boxed storage; Verus proves on the real thread_local_ctxt.rs (thread-local as a ghost map, R15) that current/swap/enter/exit meet the swap contract, open_root = own props first-wins, open_push = own over what was current, and the stack-discipline lemma over that contract; ctxt_id = exactly one critical section c -> c+1 returning c, with the lemma that ids are pairwise distinct (sync_effects); Kani: the guard's Drop exits the frame also when std::thread::panicking() (stubbed to an arbitrary boolean); thread-local typed id fast path and shared() == id 0 != new()",
         "NOT covered (stated): isolation between threads (std thread_local!), panic unwinding (two seeded changes that drop the RAII guard are missed), RefCell re-entrancy; HashMap/Entry/Arc::make_mut by assumed specs",
         "contract-based deductive verification (Kani oracle-context contracts; Verus lemma over the swap contract)", "8 C03"),
 "C04": (True, "proof",
         "Verus proves on the real SpanCtxt::current/new_child/new_root, TraceId/SpanId::random, Props for SpanCtxt and SpanGuard::new/push_ctxt: child ids (trace inherited, parent = enclosing span id), filter shown the span event with ids, exactly one Frame::push iff enabled else exactly one Frame::disabled, is_enabled == verdict; read-back lemma; the incoming-id casts (FromValue for TraceId/SpanId: typed, then integer, then hex text - the order is the contract); the effective-filter selection FirstDefined::matches; __private_begin_span: exactly one SpanGuard::new with the runtime's ctxt/clock/rng and the FirstDefined(when, runtime filter) filter on the event with the level appended; ids stored in the thread-local frame read back as the same typed ids",
         "per-step contracts; the tree is the (stated) induction; Rng, Ctxt::with_current, Filter relational mirrors; thread hand-off and poll interleavings reduce to C03's frame contract",
         "contract-based deductive verification (Verus on mechanically extracted functions)", "8 C04"),
 "C06": (True, "proof",
         "Verus proves the critical sections of Sender::send/try_send/when_flushed/when_empty/send_or_wait, the hand-off block and the retry loop of Receiver::exec (real statements) against shared spec functions, and proves as an inductive invariant of the transition system made of exactly those spec functions: kept == concat(handed) ++ pending, FIFO, exactly-once, truncation accounting; both Drop impls close the channel unconditionally under a lock model (lock always yields the state, try_lock may fail); in Receiver::exec every lock() is a fresh acquisition after rely-bounded interference, the rely condition proved from the sender-side postconditions",
         "trusted: std::sync::Mutex mutual exclusion (lock model R4, poisoning ignored), Watchers callbacks (boxed FnOnce) as ghost id lists, catch_unwind really catches (R8), processor behaviour",
         "contract-based deductive verification (Verus critical-section contracts + inductive history lemma)", "8 C06"),
 "C07": (True, "proof",
         "same units as C06: when_flushed fires at once iff not in a batch and (empty or closed) else travels with the pending batch; watchers are notified only after the retry loop exits; flush-soundness lemma over the transition system; OTLP blocking_flush = conjunction over configured signals; file on_batch returns Ok only after flush and sync_all; OtlpTransport::send Ok => every request acknowledged exactly once; the real condvar loop of Trigger::wait_timeout (true only if the flag was seen set under the lock; every wait gets exactly the remaining time; spurious wake-ups allowed); HttpResponse::stream_payload reads the response body to its end and propagates every read error (gRPC trailers are always seen); FileSetInner::emit = exactly one non-blocking send",
         "trusted: as C06; condvar/oneshot trigger side; OS durability",
         "contract-based deductive verification (Verus)", "8 C07"),
 "C08": (True, "proof",
         "Verus proves the retry loop terminates with at most max+1 attempts for every outcome sequence (success, permanent/retryable failure, panic before or inside the future), back-off bounded and non-decreasing, budget reset per batch, return iff closed and empty; Retry/Delay/Capacity contracts; Drop for Sender / Receiver leave is_open == false unconditionally (lock model: try_lock may fail); Trigger::trigger = set flag then notify_all; the real Trigger::wait_timeout loop incl. Instant/Duration arithmetic with its panic conditions as preconditions (no overflow for arbitrary timeouts)",
         "wall-clock bounds, tokio contexts, thread join not applicable; Duration arithmetic via three trusted facts",
         "contract-based deductive verification (Verus, decreases clauses)", "8 C08"),
 "C12": (True, "proof",
         "Verus proves OtlpTransport::send (real async body): Ok => every request of the batch acknowledged exactly once; Err => the retryable channel holds exactly the unacknowledged requests, failed one included; OTLP Channel::push keeps the concatenated event sequence and starts a new request iff none or size limit reached; EncodedPayload::len in bytes == content-length, HttpContent::gzip feeds the encoder exactly the payload bytes once (write-fault model for the flate2 encoder), gRPC frame = flag byte + big-endian u32 length + payload, HTTP / grpc-status decisions, HttpConnection poison logic; one receiver task per configured signal wired to that signal's transport (spawn_inner regions)",
         "trusted: send_batch abstracted by its result, EncodedScopeItems as push history, flate2 / bytes::Buf mirrors; hyper transport and Body::poll_frame not applicable",
         "contract-based deductive verification (Verus on mechanically extracted functions)", "8 C12"),
 "C13": (True, "other",
         "panic-freedom only: Verus proves every method of the sval::Stream impl for AnyStream total against a hand-declared Stream mirror; the six todo!() for non-string map keys fail and are the known finding F11; well-formedness / faithfulness of the output is produced by sval_json/sval_protobuf and is not applicable; beyond panic-freedom: stream_attributes and the metrics attribute collector enumerate props.dedup() (unique keys, first value - the latter failed on the pinned tree: F16, repaired), the per-key decisions of the log-record and span visitors (which well-known keys are lifted, err -> exception.*), metric point builders panic-free; the rolling-file default writer's record shape (ts/ts_start, mdl, msg, tpl, then props.dedup()); binary ids for protobuf and text ids for JSON",
         "partial: only emit's own code; sval default methods not mirrored; JSON/protobuf well-formedness is the dependencies'; f64 sums out of reach",
         "contract-based deductive verification (Verus panic-freedom)", "8 C13"),
 "C14": (True, "proof",
         "Verus proves OtlpInner::emit has exactly one effect at every exit: Send(metrics) iff configured and accepted, else traces, else logs, else discard+1; encoder decision prefixes (traces: span kind and range extent; logs: always; metrics: one direction); the discard Counter increments atomically (one fetch_add); KindFilter::matches and the Kind parser; metric data shape (sum / count / gauge, monotonic flag, temporality from the extent); FromValue for Kind (typed, else the text of ANY value)",
         "trusted: Sender::send / counters as logged effects; LoggedAtomic shims (each std atomic op = one event)",
         "contract-based deductive verification (Verus ghost effect trace)", "8 C14"),
 "C18": (True, "proof",
         "Verus proves on the real traceparent functions: incoming_traceparent case split (sampler called exactly once iff new root and flags sampled; never for child / continued traces; flags inherited), filters, ctxt open/enter/exit swap contract, with_current id synthesis, push/current; plus the stack lemma; Kani: every forwarding / erased context dispatches open_disabled to open_disabled (a rejected root pushes nothing); an added read of the thread-local (R15 argument injected everywhere) and a comparison of traceparents (real derive kept) are judged, not unsupported",
         "trusted: the two thread-local accessor functions (R15), Props/Ctxt mirrors; trees/threads/futures follow from step contracts + C03 lemma",
         "contract-based deductive verification (Verus with ghost thread-local slot and sampler call log)", "8 C18"),

 "C09": (True, "proof",
         "Verus proves send keeps |pending| <= capacity for every capacity >= 1 (full => whole queue cleared, item kept, truncation counter +1; straight-line under the lock, never waits), try_send / send_or_wait either enqueue exactly once or hand the item back; and that the emitters' Channel impls (Vec, file EventBatch under its representation invariant, OTLP Channel) meet the same trait contract; the tokio wait closure waits the remaining time it is called with (parameters bound through the real closure parameter list); the three Counter types: increment_by = exactly one fetch_add(by) (effect log), n complete increments add n; FileSetInner::emit and OtlpInner::emit perform exactly one plain Sender::send (never a blocking variant)",
         "trusted: Mutex (R4); EventBatch push needs the physical fact that buffer lengths sum below usize::MAX; real-time bounds not claimed",
         "contract-based deductive verification (Verus)", "8 C09"),
 "C10": (True, "proof",
         "Verus proves ActiveFile::write_event against a write-fault model (Err => some prefix was appended) incl. the chunk invariant (a complete event only follows start, a complete event or a separator; partial chunks only where a write failed and imply needs_recovery), try_open_reuse/create, the write loop and tail of Worker::on_batch (retry carries the batch with its cursor at the failed event; Ok only after flush and sync_all), and that every queued event ends with the separator; StdFilesystem call shapes against a ghost mirror of std::fs (reuse opens append-only, create is exclusive + append, parent directory opened read-only and sync_all'ed); ActiveFileSet::read leaves the list sorted newest-first so that retention deletes the oldest; try_open_reuse / try_open_create return Ok only if the parent directory was synced after the open and propagate a sync error (F17: failed on the pinned tree for reuse, repaired)",
         "single-operation write faults; crash points / loss of unsynced suffixes / multi-restart histories are not applicable (need ghost file-system state behind &self); File/Filesystem traits are fault-model mirrors",
         "contract-based deductive verification (Verus fault-model contracts)", "8 C10"),
 "C11": (True, "proof",
         "Verus proves apply_retention total for every max_files >= 0 (kept list is a prefix, deletions are exactly the tail in pop order), is_file_set_member == the name shape prefix.a.b.c.ext with theorems that sets with different prefixes never share a name, the roll predicate, rolling_millis panic-free and < one period, EventBatch bookkeeping; dir_prefix_ext (prefix = file_stem, ext = extension or log, dir = parent); file_size_bytes == bytes appended (separator included) so the roll predicate reads the true size; read sorts newest-first; read_file_name_ts returns the 4th dot-separated field from the END (dotted prefixes)",
         "trusted: format!-built names, read's directory iteration, sort_by by its std contract relative to the comparator closure, Path/OsStr accessors as distinct uninterpreted functions; directory-level statements (files on disk vs. the worker's belief) not reachable; read_file_name_ts (str::rsplit) trusted",
         "contract-based deductive verification (Verus)", "8 C11"),

 "C17": (True, "proof",
         "Verus proves MinLevelFilter::matches == (pulled level, else default, else L::default) >= min; the lenient level parser Ok <=> lenient_match for inputs of any length; and for MinLevelPathMap the representation invariant, lookup == filter of the longest registered prefix at :: boundaries (else default, else accept), and insert == view.insert(path, filter) INCLUDING the frame (no other path changes) through the real looping &mut cursor, with lemmas for registration order, repeated registration and sibling prefixes; Value::parse, which Level::from_value's text fallback goes through; (lookup loop presented to Verus through rule G3 so that a `continue` is judged)",
         "trusted: Path::segments as a Vec of segments, binary_search_by_key by its std contract on a sorted slice, Str/Event/Props mirrors, lawful Ord",
         "contract-based deductive verification (Verus, wand-style prophecy invariant)", "8 C17"),
 "C05": (True, "proof", "Kani proves each SpanGuard operation contract from an arbitrary abstract pre-state (induction over operation sequences), loop-free over full-domain symbolic inputs, on the real crate, plus Timer::start/extent; Verus proves the completion paths (completion::Default builders and complete incl. the panicking branch, the three macro completions): exactly one emit_core::emit with the runtime's emitter and ctxt, lvl/err ahead of the span's props, template override; Span::for_each order (kind, name, then props); FirstDefined::matches (a rejecting call-site filter disables the span); __private_begin_span / __PrivateBeginSpanFilter (what the begin filter is shown)", "trusted: CBMC/Kani; panic unwinding not modelled (panic=abort); macro expansion of #[span] not covered", "contract-based deductive verification (Kani per-operation contracts from symbolic pre-states; Verus for completion event shape)", "8 C05"),
 "C16": (True, "proof",
         "Verus proves on the real Template::eq (extracted each run, no statement replaced) that it is total and returns exactly equality of the canonical token sequences, "
         "and on the real Part::write / Render::write the exact sequence of writer calls (text verbatim; hole = first-wins property value through the formatter if any, else {label}; stop at first error); the four forwarding members of impl Write for &mut W run the inner writer's own method (removal fails a wrapper's postcondition); Render::as_literal / with_props / to_value; Part constructors and formatter hooks; Template::parts iterator",
         "trusted: Str/Formatter/Value mirrors (uninterpreted views), Template::as_literal mirror (slice pattern rejected by Verus), Write/Props trait mirrors, cmp::min spec; macro-generated templates not covered",
         "contract-based deductive verification (Verus on mechanically extracted functions)", "8 C16"),
 "C19": (True, "other",
         "call-shape contracts (partial): Verus proves on the real text of all 41 capture impls and the 15 __private_capture_* hooks of src/macro_hooks.rs that every hook reaches exactly its mode's trait and every mode calls exactly its value-bag constructor on the value itself (capture_* typed vs from_* anonymous distinguished), that Option captures and the optional-map hooks yield nothing for None and exactly one map call for Some, on core/src/value.rs that the Value constructors, by_ref, to_owned/to_shared, downcast/borrow accessors and the written-out ToValue/FromValue impls hand the bag on unchanged, and on macros/src that the attribute -> hook-identifier table (hooks(), capture_as, default_fn_name, rename closures) is the documented one; a change that rewires a mode, hook or conversion fails a named obligation",
         "partial: the MEANING of each value-bag / sval / serde constructor (typed pull-back, exact formatting, structure, source chain) is the dependencies' and is trusted; macro_rules!-generated primitive conversions, quote! templates, the syn visitor and Value's own Display/sval/serde impls are not covered (specs/assumptions/C19.txt)",
         "contract-based deductive verification (Verus call-shape contracts on mechanically extracted functions)", "8 C19 / 13.8"),
 "C20": (True, "proof",
         "Verus proves on the real text of AmbientSlot::{new, is_enabled, init, get} and the AmbientInternalSlot forwarders (core/src/runtime.rs), against a ghost model of std::sync::OnceLock as a linearizable single-assignment cell in which EVERY access is preceded by rely-bounded interference of other threads: init returns Some iff one of its own steps installed the value (then the cell holds exactly the five erased components of its one argument and the returned runtime refers to them), returns None with the cell unchanged otherwise, and calls no component method; get / is_enabled report the cell at their read or the constant all-Empty runtime; pure lemmas over all interleavings of such steps: at most (exactly) one winner, every observer after the first enabled observation sees the same five components, a losing initialiser's components are never observed; the real Empty impls of Emitter / Filter / Ctxt / Clock / Rng are proved inert (no effect, flush true, no readings); Setup::try_init_slot / init_slot (emit_setup) assume the same clause text; three complete Kani harnesses cover the uninitialised slot through the real constant and dyn dispatch (nothing emitted, nothing panics, flush true)",
         "trusted: OnceLock step semantics (std), the rely condition (only AmbientSlot's methods touch the cell; each proved within the rely), the dyn / raw-pointer erasure stubs (R10) incl. the unsafe deref in get, the nested EMPTY constant in the Verus unit (exercised by Kani); schedules are quantified by the rely/guarantee argument, not executed",
         "contract-based deductive verification (Verus on mechanically extracted functions with a rely/guarantee OnceLock model + history lemmas; Kani for the inert slot)", "8 C20 / 13.8"),
 "C15": (True, "proof",
         "Verus proves, for every input, the contracts of the real calendar/format/parse functions extracted from /repo on each run; "
         "a code change that breaks a contract fails a named obligation; Kind parser / Display round trip, Value::parse (visitor callbacks) and as_f64 fallback order, id hex codecs and flags (Kani, complete over all lengths that pass the length test)",
         "trusted: std Duration accessors (assumed specs), rewrite rules listed in evidence, Verus/Z3",
         "contract-based deductive verification (Verus on mechanically extracted functions; Kani for codecs)", "8 C15"),
}
NA = {
 "C19": "behaviour lives in value-bag/serde/sval and proc-macro expansion; emit's code is one-line delegation (Value::capture_display etc.), a contract on it would restate the dependency's; a Kani harness for the primitive part (capture-default of integers/bool/f64 pulled back typed, optional None adds nothing) was tried and CBMC does not finish in 15 min on value-bag's capture path (DESIGN-experiments/kani_pub_c19_*); DESIGN.md section 9",
 "C20": "quantifies over thread schedules of std::sync::OnceLock initialisation; Kani has no threads, Verus has no OnceLock model; a Kani harness for the sequential part only (inert before init, first init wins, second fails and is never used) was tried and CBMC does not finish in 15 min (DESIGN-experiments/kani_pub_c20_*); DESIGN.md section 9",
}

# extension phase (DESIGN 13.8): additions to the level texts and replacements of notes that went stale
ADD_TEXT = {
 "C01": " Extension: every ToExtent impl and the Extent constructors / accessors (core_extent) so that the event's own extent is what filter and destinations see; two Kani oracle harnesses for the emit!(evt: ..) entry point; wrapping::from_filter with a symbolic own extent; the span-start filter sees the span's level first, as the completions emit it (defect F26 repaired and pinned by emit_begin_span).",
 "C02": " Extension: the trait's DEFAULT get / pull / is_unique / dedup / and_props are real text (the visitor closure's real body spliced over an enumeration oracle; lemma_for_each_is_loop), Dedup::for_each against an assumed BTreeMap model, BTreeMap / HashMap props, the erased get / is_unique, ThreadLocalCtxtFrame / TraceparentCtxtProps / ExcludeTraceparentProps enumerations, Str's equality / order / hash PROVED on the real impls (core_str_cmp), the proc-macro side of macro props (macros_props).",
 "C03": " Extension: rule R17 makes destructor and panic-unwinding edges explicit in the extracted real text - Frame::call, FrameFuture::poll and the FrameFuture destructor leave the frame exactly once on the normal AND the unwinding path (emit_frame_unwind); a disabled frame adds nothing as a trait-level contract incl. added overrides; the dispatch harness covers &C, dyn, Option, Box, Arc, AssertInternal (F27); FrameFuture dropped early drops its future inside the frame (F29).",
 "C04": " Extension: the #[span] expansion functions as program transformers over a ghost token model (macros_span: begin_span call with each stream in the position of the real signature, setup before it, body inside the frame closure after start, in_future awaited); traceparent frames carry the current traceparent across threads (F28); typed-id fast path of the frame storage judged against parse / cast siblings.",
 "C05": " Extension: the completion expansion (default level / panic level / ok / err levels in the positions of the real hook signatures), Timer::to_extent / by_ref, the FrameFuture destructor (a cancelled async span completes inside its frame, F29).",
 "C06": " Extension: Watchers proved on the real impl for any number of callbacks and any panic pattern (batcher_watchers; the receiver / sender units assume that same clause text), a spelling-independent outcome contract of send_or_wait, Counter::increment_by as one atomic step also for C06.",
 "C07": " Extension: tokio blocking entry points under a calling-context token model (F20 repaired), the file worker makes events written before a failed write durable or hands them all back (F21), every OTLP signal's flush gets the remaining time.",
 "C08": " Extension: Watchers for unbounded callbacks incl. catch_unwind moved around the loop; no user code under the channel's state lock (guard lifetimes) in exec and sample_metrics; the OTLP worker completes only when every signal's receiver has (F18, FuturesUnordered model); blocking flush / send from any tokio context without panicking (F20); thread spawn call shapes.",
 "C09": " Extension: lock released before the sampler / watchers / processor run; send_or_wait outcome; EventBatch::clear incl. Vec::drain siblings; OtlpInner::emit route with the event's extent.",
 "C10": " Extension: Worker::on_batch as ONE extracted function with a ghost trail (directory creation, the single listing, reuse candidate, roll predicate incl. the recovery separator, retention, created name, write loop): every early exit hands back the whole batch; a failed write leaves the written events durable or rewinds the batch (F21); the default writer's visitor closure (untagged key labels, an Ok record is complete: F19); builder value flow.",
 "C11": " Extension: names from the real format strings with theorems (fixed width, numeric = text order, period order, round trip for dotted prefixes, created names are members of their own set); ActiveFileSet::read whole; retention also when a reopened file is kept and the fit check counts the recovery separator (F31); membership in a set is the strict naming scheme - period of digits and '-', counter of at least 8 digits, id of 8 hex digits (F32: a foreign file with three dot-free segments was deleted by retention); StdFile::len is the file's length (Seek siblings).",
 "C12": " Extension: the worker drains every signal's receiver (F18); the per-batch retry budget (batcher_receiver, also for C12); when_flushed (batcher_sender, also for C12).",
 "C13": " Extension (still partial, category other): call-sequence contracts of the OTLP log record / span adapters (layout with schema-checked field numbers, lifted iff the value converts else an ordinary attribute: F24, status and exception event as iffs, ids binary / fixed-width hex), sval labels and indices of the metric records read from the real derive attributes and related to the generated prost schema (F30), the metrics value visitor over sval's transcribed default integer chain (F22), the f64 running total as a structure over uninterpreted + / as f64, the file default writer's visitor (F19), the terminal writer's output as a ghost trace; open findings F11 (todo!() for non-string map keys) and F25 (duplicate exception.* attribute key).",
 "C14": " Extension: every numeric width is a metric point (F22), an unconfigured emitter counts what it drops (F23), KindFilter on the full three-form cast, Kind::from_str with trim siblings, into_points total for every extent.",
 "C15": " Extension: Display for Traceparent against the byte-level shape + round-trip lemma, Path constructors and FromValue for Path, Value::parse's visit_str parses exactly its text (trim siblings), fmt_rfc3339 precision clamp, id FromValue order.",
 "C16": " Extension: the proc-macro side (macros_template: text fragments unchanged, one hole part per hole; macros_fmt: flags reach the format string exactly as written), Str equality under template equality (core_str_cmp), the writer units observe the sink flattened plus a write_text call counter.",
 "C17": " Extension: Str's Ord proved (core_str_cmp: an address-only fast path fails), MinLevelFilter / MinLevelPathMap builder methods under full-state contracts (last call wins), From<Level> for MinLevelFilter.",
 "C18": " Extension: AssertInternal forwards open_disabled (F27), frames carry the traceparent current at creation (F28; open_post re-derived from the property, lemma_open_carries), the two for_each of the traceparent props under the enumeration contract, Frame::call's unwinding path.",
}
NOTE_OVERRIDE = {
 "C02": "trusted: Str/Value mirrors (Str::get / eq / cmp restate what core_str_cmp proves), the enumeration oracle behind the spliced default get (its reading of for_each is derived by lemma_for_each_is_loop), std BTreeMap / HashMap models, lawful key types for map props; the erased for_each (&mut dyn FnMut) stays a BOUNDED Kani harness; see specs/assumptions/C02.txt",
 "C03": "trusted: isolation between threads (std thread_local!), that unwinding runs exactly the live locals' destructors in reverse order (Rust semantics; R17 makes those edges explicit), the destructor bodies as mirrors in the Verus unit (Kani obligations on the real code), HashMap/Entry/Arc::make_mut by assumed specs; Frame::with's guard temporary is covered on the normal path only",
 "C05": "trusted: CBMC/Kani; std::thread::panicking() is an unconstrained boolean (both branches verified); the token-shape -> program gap of the macro units (the generated call is assumed to parse to the named hook)",
 "C06": "trusted: std::sync::Mutex mutual exclusion (lock model R4, poisoning ignored), a boxed FnOnce callback is an opaque value called once by catch_unwind with an unconstrained panic outcome (cross-checked by a bounded Kani harness), processor behaviour",
 "C08": "wall-clock bounds not applicable; tokio's documented panics are preconditions of the mirrors (LocalSet on a multi-thread runtime and runtimes without enable_time excluded); nothing joins worker threads on drop (termination = close-on-drop + exec returning); Duration arithmetic via three trusted facts",
 "C10": "single-operation faults at every Filesystem / File operation; durable content tracked by logged Sync effects within one run; crash points between operations and multi-restart histories are not applicable; trusted: std path / format! meaning, Clock::now / Rng::gen_u64 yield Some, resource bounds (sizes fit usize); see specs/assumptions/C10.txt",
 "C11": "trusted: std path / format! meaning through a mirror macro over the real format strings, directory iteration order, sort_by by its std contract; two files created within the same millisecond order by random id; statements about the directory vs the worker's belief across restarts are not reachable",
 "C13": "partial: what sval_json / sval_protobuf / serde / termcolor produce from the proved call sequences is trusted; the terminal sparkline's f64 glyph index is not covered (no float reasoning in Verus, CBMC undecided); Display / sval::Value impls that fail spuriously are outside the grammar of value shapes; see specs/assumptions/C13.txt",
 "C16": "trusted: Str/Formatter/Value mirrors (uninterpreted views), Template::as_literal mirror, Write/Props trait mirrors, cmp::min spec; fv-template's literal scanning and un-escaping; the generated token shape is assumed to parse to the named calls",
 "C17": "trusted: Path::segments as a Vec of segments, binary_search_by_key by its std contract on a sorted slice, Event/Props mirrors; <str as Ord>::cmp = lexicographic byte order and the one unsafe deref in Str::get",
}

checks = []
for pid in sorted(P):
    claimed, level, text, note, tech, ref = P[pid]
    if not claimed:
        continue
    text = text + ADD_TEXT.get(pid, "")
    note = NOTE_OVERRIDE.get(pid, note)
    checks.append({
        "property_id": pid,
        "quick_cmd": "./check %s --tier quick" % pid,
        "thorough_cmd": "./check %s --tier thorough" % pid,
        "evidence_file": "/verif/evidence/%s.json" % pid,
        "replay_cmd_template": "./check %s --replay {path}" % pid,
        "engine": "verus-extract+kani",
        "level_claimed": {"category": level, "text": text, "design_ref": "DESIGN.md section " + ref},
        "level_note": note,
        "technique": tech,
    })
na = []
for i in range(1, 21):
    pid = "C%02d" % i
    if pid in P and P[pid][0]:
        continue
    na.append({"property_id": pid, "reason": NA.get(pid, WIP)})
hooks_commits = []
try:
    out = subprocess.run(["git", "-C", "/repo", "log", "--format=%H %s"], stdout=subprocess.PIPE, text=True).stdout
    hooks_commits = [l.split()[0] for l in out.splitlines() if " hook:" in l or " verif hook" in l]
except Exception:
    pass
m = {
 "version": 1,
 "setup_cmd": "cd /verif/tools/vx && CARGO_NET_OFFLINE=true CARGO_TARGET_DIR=/verif/.build/vx cargo build --release --offline",
 "hooks": {
   "guard": "cfg(kani) / cfg(emit_rs_emit_verif)",
   "enable": "cargo kani sets cfg(kani) itself; the replay runner passes RUSTFLAGS=--cfg emit_rs_emit_verif and EMIT_RS_EMIT_VERIF_DIR=/verif; Verus units need no hooks",
   "baseline_off_cmd": "cd /repo && cargo test --workspace --no-fail-fast --offline",
   "source_commits": hooks_commits,
   "add_only": True,
 },
 "engines": [
   {"name": "verus-extract", "path": "/verif/tools/vx + /verif/specs/*.vx", "serves_properties": sorted(p for p in P if P[p][0]),
    "kind_free_text": "syn-based extractor splices contracts into the real function text; Verus 0.2026.09.13 discharges every obligation (unbounded)"},
   {"name": "kani-real-crates", "path": "/verif/kani", "serves_properties": sorted(p for p in P if P[p][0]),
    "kind_free_text": "Kani 0.68 harnesses on the real crates: function contracts, oracle children, loop-free complete proofs; bounded stand-ins labelled"},
 ],
 "checks": checks,
 "not_applicable": na,
 "notes": "exit 0 = all obligations discharged (KNOWN-FINDING lines do not count), 1 = VIOLATION, 2 = undecided (lost anchor / unsupported construct / rlimit) which is never an alarm",
}
json.dump(m, open(os.path.join(V, "MANIFEST.json"), "w"), indent=1)
print("claimed:", [c["property_id"] for c in checks])
