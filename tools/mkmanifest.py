#!/usr/bin/env python3
"""Regenerates /verif/MANIFEST.json from the table below (kept in one place so the manifest is always valid)."""
import json, os, subprocess
V = os.path.dirname(os.path.dirname(os.path.abspath(__file__)))

WIP = "contracts not completed yet in this build (see DESIGN.md section 12); not claimed until its units verify on the unchanged tree"

# id -> (claimed, level, text, note, technique, design_ref)
P = {
 "C05": (True, "proof", "Kani proves each SpanGuard operation contract from an arbitrary abstract pre-state (induction over operation sequences), loop-free over full-domain symbolic inputs, on the real crate", "trusted: CBMC/Kani; panic unwinding not modelled (panic=abort); macro expansion of #[span] not covered", "contract-based deductive verification (Kani per-operation contracts from symbolic pre-states; Verus for completion event shape)", "8 C05"),
 "C16": (True, "proof",
         "Verus proves on the real Template::eq (extracted each run, no statement replaced) that it is total and returns exactly equality of the canonical token sequences, "
         "and on the real Part::write / Render::write the exact sequence of writer calls (text verbatim; hole = first-wins property value through the formatter if any, else {label}; stop at first error)",
         "trusted: Str/Formatter/Value mirrors (uninterpreted views), Template::as_literal mirror (slice pattern rejected by Verus), Write/Props trait mirrors, cmp::min spec; macro-generated templates not covered",
         "contract-based deductive verification (Verus on mechanically extracted functions)", "8 C16"),
 "C15": (True, "proof",
         "Verus proves, for every input, the contracts of the real calendar/format/parse functions extracted from /repo on each run; "
         "a code change that breaks a contract fails a named obligation",
         "trusted: std Duration accessors (assumed specs), rewrite rules listed in evidence, Verus/Z3",
         "contract-based deductive verification (Verus on mechanically extracted functions; Kani for codecs)", "8 C15"),
}
NA = {
 "C19": "behaviour lives in value-bag/serde/sval and proc-macro expansion; emit's code is one-line delegation, no contract within reach decides it (DESIGN.md section 9)",
 "C20": "quantifies over thread schedules of std::sync::OnceLock initialisation; Kani has no threads, Verus has no OnceLock model (DESIGN.md section 9)",
}
checks = []
for pid in sorted(P):
    claimed, level, text, note, tech, ref = P[pid]
    if not claimed:
        continue
    checks.append({
        "property_id": pid,
        "quick_cmd": "./check %s --tier quick" % pid,
        "thorough_cmd": "./check %s --tier thorough" % pid,
        "evidence_file": "/verif/evidence/%s.json" % pid,
        "replay_cmd_template": "./check %s --replay {path}" % pid,
        "engine": "verus-extract+kani",
        "level_claimed": {"category": level, "text": text, "design_ref": "DESIGN.md section " + ref},
        "level_note": note,
        "technique": tech,
    })
na = []
for i in range(1, 21):
    pid = "C%02d" % i
    if pid in P and P[pid][0]:
        continue
    na.append({"property_id": pid, "reason": NA.get(pid, WIP)})
hooks_commits = []
try:
    out = subprocess.run(["git", "-C", "/repo", "log", "--format=%H %s"], stdout=subprocess.PIPE, text=True).stdout
    hooks_commits = [l.split()[0] for l in out.splitlines() if " hook:" in l or " verif hook" in l]
except Exception:
    pass
m = {
 "version": 1,
 "setup_cmd": "cd /verif/tools/vx && CARGO_NET_OFFLINE=true CARGO_TARGET_DIR=/verif/.build/vx cargo build --release --offline",
 "hooks": {
   "guard": "cfg(kani) / cfg(emit_rs_emit_verif)",
   "enable": "cargo kani sets cfg(kani) itself; the replay runner passes RUSTFLAGS=--cfg emit_rs_emit_verif and EMIT_RS_EMIT_VERIF_DIR=/verif; Verus units need no hooks",
   "baseline_off_cmd": "cd /repo && cargo test --workspace --no-fail-fast --offline",
   "source_commits": hooks_commits,
   "add_only": True,
 },
 "engines": [
   {"name": "verus-extract", "path": "/verif/tools/vx + /verif/specs/*.vx", "serves_properties": sorted(p for p in P if P[p][0]),
    "kind_free_text": "syn-based extractor splices contracts into the real function text; Verus 0.2026.09.13 discharges every obligation (unbounded)"},
   {"name": "kani-real-crates", "path": "/verif/kani", "serves_properties": sorted(p for p in P if P[p][0]),
    "kind_free_text": "Kani 0.68 harnesses on the real crates: function contracts, oracle children, loop-free complete proofs; bounded stand-ins labelled"},
 ],
 "checks": checks,
 "not_applicable": na,
 "notes": "exit 0 = all obligations discharged (KNOWN-FINDING lines do not count), 1 = VIOLATION, 2 = undecided (lost anchor / unsupported construct / rlimit) which is never an alarm",
}
json.dump(m, open(os.path.join(V, "MANIFEST.json"), "w"), indent=1)
print("claimed:", [c["property_id"] for c in checks])
