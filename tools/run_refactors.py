#!/usr/bin/env python3
"""Run the checks against behaviour-preserving refactorings: for every /tmp/ref/<group>-out/refactorN.diff apply it in the
group's worktree and run the checks of the group's properties plus every property whose units extract from a touched file.
A verdict of exit 1 on such a patch would be a FALSE ALARM. usage: run_refactors.py <group>"""
import glob, json, os, re, subprocess, sys
g = sys.argv[1]
wt, out = "/tmp/ref/%s" % g, "/tmp/ref/%s-out" % g
clean = "git checkout -q -- . && git clean -qfd"
# property -> files its units extract from
byfile = {}
for f in glob.glob("/verif/evidence/C*.json"):
    e = json.load(open(f))
    for u in e["coverage"].get("units", []):
        for x in u.get("extracted", []):
            byfile.setdefault(x.split(" ")[0], set()).add(e["property_id"])
res = []
for p in sorted(glob.glob(out + "/refactor*.diff")):
    subprocess.run(clean, shell=True, cwd=wt)
    a = subprocess.run(["git", "apply", p], cwd=wt, stdout=subprocess.PIPE, stderr=subprocess.STDOUT, text=True)
    if a.returncode != 0:
        res.append({"patch": os.path.basename(p), "applies": False})
        continue
    files = re.findall(r"^\+\+\+ b/(.*)$", open(p).read(), re.M)
    props = set(g.split("-"))
    for fl in files:
        props |= byfile.get(fl, set())
    r = {"patch": os.path.basename(p), "files": files, "checks": {}}
    for c in sorted(props):
        x = subprocess.run(["./check", c], cwd="/verif", env=dict(os.environ, VERIF_REPO=wt), stdout=subprocess.PIPE, stderr=subprocess.PIPE, text=True)
        r["checks"][c] = {"exit": x.returncode, "first": ([l.strip()[:260] for l in x.stderr.split("\n") if "failed obligation" in l or l.startswith("UNDECIDED")] + [""])[0]}
    res.append(r)
    print(r["patch"], {c: v["exit"] for c, v in r["checks"].items()}, flush=True)
    for c, v in r["checks"].items():
        if v["exit"] != 0:
            print("    ", c, v["first"], flush=True)
subprocess.run(clean, shell=True, cwd=wt)
json.dump(res, open(out + "/refactor_results.json", "w"), indent=1)
