#!/usr/bin/env python3
"""Run tools/seedcheck.py for every stored seed (N in parallel, default 3) against its own property and, where
meta.json names more, those too. usage: seedcheck_all.py [N] [pattern]"""
import concurrent.futures as cf, glob, json, os, subprocess, sys
n = int(sys.argv[1]) if len(sys.argv) > 1 else 3
pat = sys.argv[2] if len(sys.argv) > 2 else ""
seeds = sorted(os.path.basename(d) for d in glob.glob("/verif/seeded/C*") if pat in d)


def one(s):
    r = subprocess.run([sys.executable, "/verif/tools/seedcheck.py", s], stdout=subprocess.PIPE, stderr=subprocess.STDOUT, text=True)
    return s, r.stdout.strip()


with cf.ThreadPoolExecutor(max_workers=n) as ex:
    for s, out in ex.map(one, seeds):
        print(out, flush=True)
