//! vx — extract real items of /repo by AST path and splice contract text at
//! AST-determined byte offsets (DESIGN.md §4).
//!
//!   vx gen <unit.vx> --repo <dir> --out <unit.rs> --map <unit.map.json> [--canary]
//!
//! Exit codes: 0 generated, 2 undecided (lost item / lost anchor / overlapping edits /
//! unparsable source), never 1.
//!
//! Unit file format: raw text is copied verbatim; lines whose first non-blank
//! characters are `//@` are directives.
//!
//!   //@unit NAME                     //@properties C15 C11
//!   //@include FILE                  (raw include, relative to the unit file)
//!   //@extract FILE / SEG / SEG ...  begins an extraction block, ends with //@end
//!        SEG = mod N | fn N | impl [TRAIT for] TYPE [#k] | struct N | enum N | const N
//!              | static N | type N | trait N
//!        if the last SEG is `fn` inside an `impl`, the method is wrapped in the
//!        impl's real header.
//!     //@rules R1 R2 ...             rewrite rules enabled for this item
//!     //@header                      body replaces the impl header (up to `{`)
//!     //@keep a b c                  whole impl/trait: keep only these members
//!     //@fn NAME                     following directives address member NAME
//!     //@ret NAME                    name the return value
//!     //@sig                         body goes between signature and body block
//!     //@param                       body is appended to the parameter list
//!     //@loop K                      body goes between loop header K and its block
//!     //@closure K                   body goes between closure K's `|..|` and its body
//!     //@before ANCHOR               body goes before the statement enclosing ANCHOR
//!     //@after ANCHOR                ... after it
//!     //@inside-start ANCHOR         ... at the start of ANCHOR's primary block
//!     //@inside-end ANCHOR           ... at the end of ANCHOR's primary block
//!     //@wrap RULE ANCHOR            body with `$$` = the original expression text
//!     //@replace RULE ANCHOR         body replaces the node (logged with the old text)
//!     //@delete RULE ANCHOR          the enclosing statement is deleted (logged)
//!     //@before-each / //@after-each ANCHOR-without-#k   every occurrence
//!   //@end
//!
//!   ANCHOR = KIND [NAME] [#k]   (k-th in pre-order inside the function, default 0)
//!     KIND = let | while | for | loop | if | match | arm | return | break | continue
//!          | assign | call | mcall | macro | cast | closure | try | block | start | end

use proc_macro2::Span;
use serde_json::json;
use std::collections::{BTreeMap, BTreeSet};
use std::ops::Range;
use syn::spanned::Spanned;
use syn::visit::Visit;

fn undecided(msg: &str) -> ! {
    eprintln!("UNDECIDED vx: {msg}");
    std::process::exit(2)
}

fn br(s: Span) -> Range<usize> {
    s.byte_range()
}

// ---------------------------------------------------------------- unit file

#[derive(Debug, Clone)]
struct Section {
    kind: String,
    arg: String,
    line0: usize, // unit-file line (1-based) of the first body line
    file: String, // unit file the section comes from
    text: String,
}

#[derive(Debug, Default)]
struct FnSpec {
    name: String,
    sections: Vec<Section>,
    optional: bool, // `//@fn? NAME`: if the member is absent its directives are skipped (e.g. a forwarding member removed so that the trait default applies)
}

#[derive(Debug)]
struct Extract {
    line: usize,
    file: String,
    path: Vec<String>,
    rules: BTreeSet<String>,
    header: Option<Section>,
    members: Option<Section>,
    keep: Option<Vec<String>>,
    fns: Vec<FnSpec>,
}

enum Chunk {
    Raw { file: String, line0: usize, text: String },
    Extract(Extract),
}

struct Unit {
    name: String,
    properties: Vec<String>,
    meta: BTreeMap<String, String>,
    chunks: Vec<Chunk>,
}

fn parse_unit(path: &str, unit: &mut Unit) {
    let text = std::fs::read_to_string(path).unwrap_or_else(|e| undecided(&format!("cannot read {path}: {e}")));
    let dir = std::path::Path::new(path).parent().unwrap().to_path_buf();
    let mut raw = String::new();
    let mut raw_line0 = 1usize;
    let mut cur: Option<Extract> = None;
    let mut cur_sec: Option<Section> = None;
    let flush_raw = |raw: &mut String, line0: usize, chunks: &mut Vec<Chunk>| {
        if !raw.is_empty() {
            chunks.push(Chunk::Raw { file: path.to_string(), line0, text: std::mem::take(raw) });
        }
    };
    fn close_sec(cur: &mut Option<Extract>, sec: &mut Option<Section>) {
        if let (Some(ex), Some(s)) = (cur.as_mut(), sec.take()) {
            if s.kind == "header" {
                ex.header = Some(s);
            } else if s.kind == "members" {
                ex.members = Some(s);
            } else {
                if ex.fns.is_empty() {
                    ex.fns.push(FnSpec::default());
                }
                ex.fns.last_mut().unwrap().sections.push(s);
            }
        }
    }
    for (i, line) in text.lines().enumerate() {
        let ln = i + 1;
        let t = line.trim_start();
        if let Some(d) = t.strip_prefix("//@") {
            let d = d.trim();
            let (kw, arg) = match d.find(char::is_whitespace) {
                Some(p) => (&d[..p], d[p..].trim()),
                None => (d, ""),
            };
            match kw {
                "unit" => unit.name = arg.to_string(),
                "rlimit" | "tier" | "desc" | "threads" | "closures" => { unit.meta.insert(kw.to_string(), arg.to_string()); }
                "properties" => unit.properties.extend(arg.split_whitespace().map(String::from)),
                "include" => {
                    if cur.is_some() {
                        undecided(&format!("{path}:{ln}: //@include inside //@extract"));
                    }
                    flush_raw(&mut raw, raw_line0, &mut unit.chunks);
                    let p = dir.join(arg);
                    parse_unit(p.to_str().unwrap(), unit);
                    raw_line0 = ln + 1;
                }
                "extract" => {
                    if cur.is_some() {
                        undecided(&format!("{path}:{ln}: nested //@extract"));
                    }
                    flush_raw(&mut raw, raw_line0, &mut unit.chunks);
                    let mut segs: Vec<String> = arg.split(" / ").map(|s| s.trim().to_string()).collect();
                    let file = segs.remove(0);
                    cur = Some(Extract { line: ln, file, path: segs, rules: BTreeSet::new(), header: None, members: None, keep: None, fns: vec![] });
                }
                "end" => {
                    close_sec(&mut cur, &mut cur_sec);
                    match cur.take() {
                        Some(ex) => unit.chunks.push(Chunk::Extract(ex)),
                        None => undecided(&format!("{path}:{ln}: //@end without //@extract")),
                    }
                    raw_line0 = ln + 1;
                }
                _ => {
                    if cur.is_none() { undecided(&format!("{path}:{ln}: directive //@{kw} outside //@extract")) }
                    close_sec(&mut cur, &mut cur_sec);
                    match kw {
                        "rules" => cur.as_mut().unwrap().rules.extend(arg.split_whitespace().map(String::from)),
                        "keep" => cur.as_mut().unwrap().keep = Some(arg.split_whitespace().map(String::from).collect()),
                        "fn" => cur.as_mut().unwrap().fns.push(FnSpec { name: arg.to_string(), sections: vec![], optional: false }),
                        "fn?" => cur.as_mut().unwrap().fns.push(FnSpec { name: arg.to_string(), sections: vec![], optional: true }),
                        "ret" | "sig" | "param" | "loop" | "closure" | "before" | "after" | "inside-start" | "inside-end" | "wrap" | "replace"
                        | "delete" | "before-each" | "after-each" | "header" | "arg-each" | "splice" | "members" | "wrap-each" | "replace-each" | "delete-each"
                        | "guard" | "guard-param" | "unwind-each" => {
                            cur_sec = Some(Section { kind: kw.to_string(), arg: arg.to_string(), line0: ln + 1, file: path.to_string(), text: String::new() });
                        }
                        _ => undecided(&format!("{path}:{ln}: unknown directive //@{kw}")),
                    }
                }
            }
        } else if let Some(s) = cur_sec.as_mut() {
            s.text.push_str(line);
            s.text.push('\n');
        } else if cur.is_some() {
            if !t.is_empty() {
                undecided(&format!("{path}:{ln}: text inside //@extract outside a section"));
            }
        } else {
            if raw.is_empty() {
                raw_line0 = ln;
            }
            raw.push_str(line);
            raw.push('\n');
        }
    }
    if cur.is_some() {
        undecided(&format!("{path}: //@extract without //@end"));
    }
    flush_raw(&mut raw, raw_line0, &mut unit.chunks);
}

// ---------------------------------------------------------------- output pieces

#[derive(Clone)]
enum Origin {
    Unit { file: String, line: usize },
    Repo { file: String, byte: usize, line: usize },
    Gen { what: String },
}

struct Piece {
    text: String,
    origin: Origin,
    func: String,
    section: String,
    pos: usize, // source offset the piece belongs to (spliced text: where it was inserted)
}

#[derive(Clone)]
struct Edit {
    start: usize,
    end: usize,
    seq: usize,
    text: String,
    origin: Origin,
    section: String,
    copy: Option<Range<usize>>, // after `text`, emit a copy of this source region (with its edits)
}

// ---------------------------------------------------------------- anchors

#[derive(Debug, Clone)]
struct Node {
    kind: &'static str,
    name: String,
    range: Range<usize>,
    stmt: Range<usize>,
    block: Option<Range<usize>>, // primary inner block, including braces
    header_end: Option<usize>,   // loops: start of the body block; closures: end of `|..|` (+ ret type)
    body: Option<Range<usize>>,  // closures: body expression range
    aux: Option<(usize, bool)>,  // calls: (offset of the closing paren, has arguments)
}

struct Scan {
    nodes: Vec<Node>,
    stmts: Vec<Range<usize>>,
    fn_block: Range<usize>,
    // every block's statements in order (ranges), for hint relocation to a sibling statement
    blocks: Vec<Vec<Range<usize>>>,
    // parallel to `blocks`: (the block's range incl. braces, its tail expression if the last statement is an expression without `;`)
    block_info: Vec<(Range<usize>, Option<Range<usize>>)>,
}

impl Scan {
    fn push(&mut self, kind: &'static str, name: String, range: Range<usize>, block: Option<Range<usize>>, header_end: Option<usize>, body: Option<Range<usize>>) {
        let stmt = self.stmts.last().cloned().unwrap_or(range.clone());
        self.nodes.push(Node { kind, name, range, stmt, block, header_end, body, aux: None });
    }
    fn push_call(&mut self, kind: &'static str, name: String, range: Range<usize>, close: usize, has_args: bool) {
        let stmt = self.stmts.last().cloned().unwrap_or(range.clone());
        self.nodes.push(Node { kind, name, range, stmt, block: None, header_end: None, body: None, aux: Some((close, has_args)) });
    }
}

fn pat_idents(p: &syn::Pat, out: &mut Vec<String>) {
    match p {
        syn::Pat::Ident(i) => out.push(i.ident.to_string()),
        syn::Pat::Type(t) => pat_idents(&t.pat, out),
        syn::Pat::Tuple(t) => t.elems.iter().for_each(|e| pat_idents(e, out)),
        syn::Pat::TupleStruct(t) => t.elems.iter().for_each(|e| pat_idents(e, out)),
        syn::Pat::Struct(s) => s.fields.iter().for_each(|f| pat_idents(&f.pat, out)),
        syn::Pat::Reference(r) => pat_idents(&r.pat, out),
        syn::Pat::Paren(r) => pat_idents(&r.pat, out),
        _ => {}
    }
}

fn base_ident(e: &syn::Expr) -> String {
    match e {
        syn::Expr::Path(p) => p.path.segments.last().map(|s| s.ident.to_string()).unwrap_or_default(),
        syn::Expr::Field(f) => base_ident(&f.base),
        syn::Expr::Index(i) => base_ident(&i.expr),
        syn::Expr::Unary(u) => base_ident(&u.expr),
        syn::Expr::Paren(p) => base_ident(&p.expr),
        syn::Expr::MethodCall(m) => base_ident(&m.receiver),
        _ => String::new(),
    }
}

fn self_src_op(op: &syn::BinOp) -> String {
    use syn::BinOp::*;
    match op {
        Add(_) => "+", Sub(_) => "-", Mul(_) => "*", Div(_) => "/", Rem(_) => "%", And(_) => "&&", Or(_) => "||",
        BitXor(_) => "^", BitAnd(_) => "&", BitOr(_) => "|", Shl(_) => "<<", Shr(_) => ">>", Eq(_) => "==", Lt(_) => "<",
        Le(_) => "<=", Ne(_) => "!=", Ge(_) => ">=", Gt(_) => ">", _ => "op=",
    }
    .to_string()
}

fn is_assign_op(op: &syn::BinOp) -> bool {
    use syn::BinOp::*;
    matches!(op, AddAssign(_) | SubAssign(_) | MulAssign(_) | DivAssign(_) | RemAssign(_) | BitXorAssign(_) | BitAndAssign(_) | BitOrAssign(_) | ShlAssign(_) | ShrAssign(_))
}

impl<'ast> Visit<'ast> for Scan {
    fn visit_block(&mut self, b: &'ast syn::Block) {
        let list: Vec<Range<usize>> = b.stmts.iter().filter(|s| !matches!(s, syn::Stmt::Item(_))).map(|s| br(s.span())).collect();
        self.blocks.push(list);
        let tail = match b.stmts.last() {
            Some(syn::Stmt::Expr(e, None)) => Some(br(e.span())),
            _ => None,
        };
        self.block_info.push((br(b.span()), tail));
        syn::visit::visit_block(self, b);
    }
    fn visit_stmt(&mut self, s: &'ast syn::Stmt) {
        if let syn::Stmt::Item(_) = s {
            return; // nested items are addressed by their own path
        }
        let r = br(s.span());
        self.stmts.push(r.clone());
        match s {
            syn::Stmt::Local(l) => {
                let mut ids = vec![];
                pat_idents(&l.pat, &mut ids);
                // one node per bound identifier so `let NAME` finds it
                if ids.is_empty() {
                    self.push("let", String::new(), r.clone(), None, None, None);
                }
                for id in ids {
                    self.push("let", id, r.clone(), None, None, None);
                }
            }
            syn::Stmt::Macro(m) => {
                let name = m.mac.path.segments.last().map(|s| s.ident.to_string()).unwrap_or_default();
                self.push("macro", name, r.clone(), None, None, None);
            }
            _ => {}
        }
        syn::visit::visit_stmt(self, s);
        self.stmts.pop();
    }
    fn visit_expr(&mut self, e: &'ast syn::Expr) {
        let r = br(e.span());
        match e {
            syn::Expr::While(w) => self.push("while", String::new(), r, Some(br(w.body.span())), Some(br(w.body.span()).start), None),
            syn::Expr::ForLoop(w) => {
                self.push("for", String::new(), r, Some(br(w.body.span())), Some(br(w.body.span()).start), None);
                // `iterable#k`: the iterated expression of the k-th `for` (whatever it is: `&self.0`, a call, a local)
                self.push("iterable", String::new(), br(w.expr.span()), None, None, None);
            }
            syn::Expr::Loop(w) => self.push("loop", String::new(), r, Some(br(w.body.span())), Some(br(w.body.span()).start), None),
            syn::Expr::If(w) => self.push("if", String::new(), r, Some(br(w.then_branch.span())), None, None),
            syn::Expr::Match(_) => self.push("match", String::new(), r, None, None, None),
            syn::Expr::Return(x) => self.push("return", String::new(), r, None, None, x.expr.as_ref().map(|e| br(e.span()))),
            syn::Expr::Break(_) => self.push("break", String::new(), r, None, None, None),
            syn::Expr::Continue(_) => self.push("continue", String::new(), r, None, None, None),
            syn::Expr::Assign(a) => self.push("assign", base_ident(&a.left), r, None, None, None),
            syn::Expr::Binary(b) if is_assign_op(&b.op) => self.push("assign", base_ident(&b.left), r, None, None, None),
            syn::Expr::Call(c) => {
                let name = match &*c.func {
                    syn::Expr::Path(p) => p.path.segments.last().map(|s| s.ident.to_string()).unwrap_or_default(),
                    _ => String::new(),
                };
                self.push_call("call", name.clone(), r, br(c.paren_token.span.close()).start, !c.args.is_empty() && !c.args.trailing_punct());
                // `callee NAME`: the function expression of a call (robust against other mentions of NAME moving around)
                if !name.is_empty() {
                    self.push("callee", name, br(c.func.span()), None, None, None);
                }
            }
            syn::Expr::MethodCall(m) => self.push_call("mcall", m.method.to_string(), r, br(m.paren_token.span.close()).start, !m.args.is_empty() && !m.args.trailing_punct()),
            syn::Expr::Binary(b) => {
                let op = self_src_op(&b.op);
                self.push("binop", op, r, None, None, None)
            }
            syn::Expr::Index(_) => self.push("index", String::new(), r, None, None, None),
            syn::Expr::Field(f) => {
                let name = match &f.member { syn::Member::Named(i) => i.to_string(), syn::Member::Unnamed(i) => i.index.to_string() };
                self.push("field", name, r, None, None, None)
            }
            syn::Expr::Reference(_) => self.push("ref", String::new(), r, None, None, None),
            syn::Expr::Unary(_) => self.push("unary", String::new(), r, None, None, None),
            syn::Expr::Struct(st) => self.push("struct", st.path.segments.last().map(|s| s.ident.to_string()).unwrap_or_default(), r, None, None, None),
            syn::Expr::Path(p) => self.push("path", p.path.segments.last().map(|s| s.ident.to_string()).unwrap_or_default(), r, None, None, None),
            syn::Expr::Lit(_) => self.push("lit", String::new(), r, None, None, None),
            syn::Expr::Paren(_) => self.push("paren", String::new(), r, None, None, None),
            syn::Expr::Tuple(_) => self.push("tuple", String::new(), r, None, None, None),
            syn::Expr::Range(_) => self.push("range", String::new(), r, None, None, None),
            syn::Expr::Array(_) => self.push("array", String::new(), r, None, None, None),
            syn::Expr::Await(_) => self.push("await", String::new(), r, None, None, None),
            syn::Expr::Macro(m) => {
                let name = m.mac.path.segments.last().map(|s| s.ident.to_string()).unwrap_or_default();
                self.push("macro", name, r, None, None, None)
            }
            syn::Expr::Cast(_) => self.push("cast", String::new(), r, None, None, None),
            syn::Expr::Try(_) => self.push("try", String::new(), r, None, None, None),
            syn::Expr::Block(b) => self.push("block", String::new(), r, Some(br(b.block.span())), None, None),
            syn::Expr::Unsafe(b) => self.push("block", String::new(), r, Some(br(b.block.span())), None, None),
            syn::Expr::Closure(c) => {
                let hdr_end = match &c.output {
                    syn::ReturnType::Type(_, t) => br(t.span()).end,
                    syn::ReturnType::Default => br(c.or2_token.span()).end,
                };
                let body = br(c.body.span());
                let blk = if let syn::Expr::Block(_) = &*c.body { Some(body.clone()) } else { None };
                self.push("closure", String::new(), r, blk, Some(hdr_end), Some(body));
                // `cparams#k`: the parameter list of the k-th closure (the text between its `|`s); with `expr cparams#k`
                // a hand-written wrapper can bind its own arguments through the REAL parameter patterns
                self.push("cparams", String::new(), br(c.or1_token.span()).end..br(c.or2_token.span()).start, None, None, None);
            }
            _ => {}
        }
        syn::visit::visit_expr(self, e);
    }
    fn visit_arm(&mut self, a: &'ast syn::Arm) {
        let r = br(a.span());
        let blk = if let syn::Expr::Block(b) = &*a.body { Some(br(b.block.span())) } else { None };
        self.push("arm", String::new(), r, blk, None, Some(br(a.body.span())));
        syn::visit::visit_arm(self, a);
    }
}

fn resolve<'a>(scan: &'a Scan, anchor: &str, all: bool, ctx: &str) -> Vec<&'a Node> {
    let mut a = anchor.trim().to_string();
    let mut k: Option<usize> = None;
    if let Some(p) = a.rfind('#') {
        k = Some(a[p + 1..].trim().parse().unwrap_or_else(|_| undecided(&format!("{ctx}: bad anchor ordinal in `{anchor}`"))));
        a.truncate(p);
    }
    let mut it = a.split_whitespace();
    let kind = it.next().unwrap_or("");
    let name = it.next().unwrap_or("");
    let found: Vec<&Node> = scan.nodes.iter().filter(|n| n.kind == kind && (name.is_empty() || n.name == name)).collect();
    if all {
        // "every occurrence" is also satisfied by none: a change that removes the last occurrence must be
        // judged by the contracts, not end as a lost anchor
        return found;
    }
    let k = k.unwrap_or(0);
    match found.get(k) {
        Some(n) => vec![*n],
        None => undecided(&format!("{ctx}: lost anchor `{anchor}` ({} candidates)", found.len())),
    }
}

// ---------------------------------------------------------------- item lookup

fn norm(s: &str) -> String {
    s.chars().filter(|c| !c.is_whitespace()).collect()
}

enum Found<'a> {
    Item(&'a syn::Item),
    ImplFn(&'a syn::ItemImpl, &'a syn::ImplItemFn),
    TraitFn(&'a syn::ItemTrait, &'a syn::TraitItemFn),
}

fn item_matches(src: &str, it: &syn::Item, seg: &str) -> bool {
    let (kw, rest) = match seg.find(' ') {
        Some(p) => (&seg[..p], seg[p + 1..].trim()),
        None => (seg, ""),
    };
    match (kw, it) {
        ("fn", syn::Item::Fn(f)) => f.sig.ident == rest,
        ("struct", syn::Item::Struct(s)) => s.ident == rest,
        ("enum", syn::Item::Enum(s)) => s.ident == rest,
        ("const", syn::Item::Const(s)) => s.ident == rest,
        ("static", syn::Item::Static(s)) => s.ident == rest,
        ("type", syn::Item::Type(s)) => s.ident == rest,
        ("trait", syn::Item::Trait(s)) => s.ident == rest,
        ("mod", syn::Item::Mod(s)) => s.ident == rest,
        ("impl", syn::Item::Impl(im)) => {
            let ty = norm(&src[br(im.self_ty.span())]);
            let have = match &im.trait_ {
                Some((_, p, _)) => format!("{}for{}", norm(&src[br(p.span())]), ty),
                None => ty,
            };
            // `A for B` -> `AforB`; an inherent impl is `B`
            let want = {
                let r = rest;
                match r.find(" for ") {
                    Some(p) => format!("{}for{}", norm(&r[..p]), norm(&r[p + 5..])),
                    None => norm(r),
                }
            };
            have == want
        }
        _ => false,
    }
}

fn find_in_items<'a>(src: &str, items: &'a [syn::Item], path: &[String], ctx: &str) -> Found<'a> {
    let mut seg = path[0].clone();
    let mut k = 0usize;
    if let Some(p) = seg.rfind('#') {
        if let Ok(n) = seg[p + 1..].trim().parse::<usize>() {
            k = n;
            seg.truncate(p);
            seg = seg.trim().to_string();
        }
    }
    let cands: Vec<&syn::Item> = items.iter().filter(|it| item_matches(src, it, &seg)).collect();
    let Some(it) = cands.get(k).copied() else { undecided(&format!("{ctx}: lost item `{}` ({} candidates)", path[0], cands.len())) };
    if path.len() == 1 {
        return Found::Item(it);
    }
    match it {
        syn::Item::Mod(m) => match &m.content {
            Some((_, items)) => find_in_items(src, items, &path[1..], ctx),
            None => undecided(&format!("{ctx}: module `{}` has no inline content", path[0])),
        },
        syn::Item::Fn(f) => {
            let items: Vec<syn::Item> = f.block.stmts.iter().filter_map(|s| if let syn::Stmt::Item(i) = s { Some(i.clone()) } else { None }).collect();
            // leak: the items must outlive this call; unit generation is a short-lived process
            let items: &'a [syn::Item] = Box::leak(items.into_boxed_slice());
            find_in_items(src, items, &path[1..], ctx)
        }
        syn::Item::Impl(im) => {
            let want = path[1].strip_prefix("fn ").unwrap_or_else(|| undecided(&format!("{ctx}: only `fn` can follow `impl` in a path")));
            for ii in &im.items {
                if let syn::ImplItem::Fn(f) = ii {
                    if f.sig.ident == want {
                        if path.len() > 2 {
                            // items nested in the method body
                            let items: Vec<syn::Item> = f.block.stmts.iter().filter_map(|s| if let syn::Stmt::Item(i) = s { Some(i.clone()) } else { None }).collect();
                            let items: &'a [syn::Item] = Box::leak(items.into_boxed_slice());
                            return find_in_items(src, items, &path[2..], ctx);
                        }
                        return Found::ImplFn(im, f);
                    }
                }
            }
            undecided(&format!("{ctx}: lost item `{}` in `{}`", path[1], path[0]))
        }
        syn::Item::Trait(tr) => {
            if path.len() > 2 {
                // items nested in the default body of a trait method
                let want = path[1].strip_prefix("fn ").unwrap_or_else(|| undecided(&format!("{ctx}: only `fn` can follow `trait` in a path")));
                for ii in &tr.items {
                    if let syn::TraitItem::Fn(f) = ii {
                        if f.sig.ident == want {
                            let Some(body) = &f.default else { undecided(&format!("{ctx}: trait method `{want}` has no default body")) };
                            let items: Vec<syn::Item> = body.stmts.iter().filter_map(|s| if let syn::Stmt::Item(i) = s { Some(i.clone()) } else { None }).collect();
                            let items: &'a [syn::Item] = Box::leak(items.into_boxed_slice());
                            return find_in_items(src, items, &path[2..], ctx);
                        }
                    }
                }
                undecided(&format!("{ctx}: lost item `{}` in `{}`", path[1], path[0]));
            }
            let want = path[1].strip_prefix("fn ").unwrap_or_else(|| undecided(&format!("{ctx}: only `fn` can follow `trait` in a path")));
            for ii in &tr.items {
                if let syn::TraitItem::Fn(f) = ii {
                    if f.sig.ident == want {
                        return Found::TraitFn(tr, f);
                    }
                }
            }
            undecided(&format!("{ctx}: lost item `{}` in `{}`", path[1], path[0]))
        }
        _ => undecided(&format!("{ctx}: cannot descend into `{}`", path[0])),
    }
}


// ---------------------------------------------------------------- renamed locals / parameters

/// Every identifier bound by a pattern (parameters, lets, closure parameters, match arms, loops) in source order.
struct Bindings(Vec<String>);
impl<'ast> Visit<'ast> for Bindings {
    fn visit_pat_ident(&mut self, p: &'ast syn::PatIdent) {
        self.0.push(p.ident.to_string());
        syn::visit::visit_pat_ident(self, p);
    }
}

fn is_ident_char(c: char) -> bool {
    c.is_alphanumeric() || c == '_'
}

/// Replace identifier tokens (variables only: not `.name`, not `path::name`, not `name::..`).
fn rename_idents(text: &str, map: &[(String, String)]) -> String {
    let cs: Vec<char> = text.chars().collect();
    let mut out = String::with_capacity(text.len());
    let mut i = 0;
    while i < cs.len() {
        let c = cs[i];
        if (c.is_alphabetic() || c == '_') && (i == 0 || !is_ident_char(cs[i - 1])) {
            let mut j = i;
            while j < cs.len() && is_ident_char(cs[j]) {
                j += 1;
            }
            let word: String = cs[i..j].iter().collect();
            let mut k = i;
            while k > 0 && cs[k - 1] == ' ' {
                k -= 1;
            }
            let after_dot = k > 0 && cs[k - 1] == '.' && !(k > 1 && cs[k - 2] == '.');
            let after_path = k > 1 && cs[k - 1] == ':' && cs[k - 2] == ':';
            let before_path = j + 1 < cs.len() && cs[j] == ':' && cs[j + 1] == ':';
            match map.iter().find(|(o, _)| *o == word) {
                Some((_, n)) if !after_dot && !after_path && !before_path => out.push_str(n),
                _ => out.push_str(&word),
            }
            i = j;
        } else {
            out.push(c);
            i += 1;
        }
    }
    out
}

/// In a directive argument (`[RULE] KIND [NAME][#k] [| KIND NAME ..]`) only the names of VARIABLE anchors follow a
/// renamed local: `let x`, `assign x`, `path x`. Field, method, callee, macro and struct names are not variables.
fn rename_anchor_arg(arg: &str, map: &[(String, String)]) -> String {
    let mut out: Vec<String> = vec![];
    let mut var_kind = false;
    for tok in arg.split(' ') {
        if var_kind && !tok.is_empty() {
            let (name, ord) = match tok.find('#') { Some(p) => (&tok[..p], &tok[p..]), None => (tok, "") };
            match map.iter().find(|(o, _)| o == name) {
                Some((_, n)) => out.push(format!("{n}{ord}")),
                None => out.push(tok.to_string()),
            }
            var_kind = false;
            continue;
        }
        let kind = tok.split('#').next().unwrap_or("");
        var_kind = matches!(kind, "let" | "assign" | "path") && !tok.contains('#');
        out.push(tok.to_string());
    }
    out.join(" ")
}

fn has_ident(text: &str, name: &str) -> bool {
    let probe = vec![(name.to_string(), "\u{1}".to_string())];
    rename_idents(text, &probe).contains('\u{1}')
}

/// Start (byte offset in `text`) of the last `fn` header line of a raw chunk - the hand-written wrapper a
/// sub-region extraction sits in.
fn last_fn_start(text: &str) -> Option<usize> {
    let mut off = 0;
    let mut best = None;
    for line in text.split_inclusive('\n') {
        let t = line.trim_start();
        let mut w = t;
        loop {
            let mut stripped = false;
            for q in ["pub(crate) ", "pub ", "async ", "const ", "proof ", "exec ", "open ", "closed ", "spec ", "broadcast "] {
                if let Some(r) = w.strip_prefix(q) {
                    w = r;
                    stripped = true;
                }
            }
            if !stripped {
                break;
            }
        }
        if w.starts_with("fn ") {
            best = Some(off);
        }
        off += line.len();
    }
    best
}

// ---------------------------------------------------------------- generation

struct Gen<'a> {
    repo_file: String,
    src: &'a str,
    edits: Vec<Edit>,
    seq: usize,
    log: Vec<serde_json::Value>,
    rules: BTreeSet<String>,
    ctx: String,
    canary: bool,
    // anchor fingerprints: recorded on the pinned tree (sidecar file), re-checked on every run so that an edit
    // which SHIFTS the ordinals of anonymous nodes re-anchors or ends undecided - never misplaces a contract
    recorded: &'a BTreeMap<String, (String, usize, usize, usize, usize)>,
    observed: BTreeMap<String, (String, usize, usize, usize, usize)>,
    key_prefix: String,
    key_seen: BTreeMap<String, usize>,
    // proof repair: hint key -> shift by that many sibling statements (see check: relocation search)
    allow_gone: bool,
    gone: bool,
    shifts: &'a BTreeMap<String, i64>,
    hint_seen: BTreeMap<String, usize>,
    hint_keys: Vec<String>,
    // locals / parameters renamed since the anchors were recorded (old -> new), applied to the spliced text
    renames: Vec<(String, String)>,
    in_sub: bool,
}

/// A hint may be relocated by the proof-repair search only if it is pure proof text: it must not assign to any
/// existing (ghost) variable - instrumentation such as `proof { trace = trace.push(..) }` defines the MEANING of a
/// contract and must stay where it is. `let` / `let ghost` bindings are allowed (proof-internal snapshots).
fn shiftable(text: &str) -> bool {
    let b: Vec<char> = text.chars().collect();
    let mut i = 0;
    // positions of `=` that belong to a `let` binding
    let mut let_eq: Vec<usize> = vec![];
    let t: String = text.to_string();
    let mut from = 0;
    while let Some(p) = t[from..].find("let ") {
        let start = from + p;
        if let Some(q) = t[start..].find('=') {
            // the first `=` after `let` that is not part of `==`, `=>`, `<=`, `>=`
            let_eq.push(t[..start + q].chars().count());
        }
        from = start + 4;
    }
    while i < b.len() {
        if b[i] == '=' {
            let prev = if i > 0 { b[i - 1] } else { ' ' };
            let next = if i + 1 < b.len() { b[i + 1] } else { ' ' };
            let plain = !matches!(prev, '=' | '!' | '<' | '>' | '~') && !matches!(next, '=' | '~' | '>');
            // compound assignments `+=` etc. are assignments too
            if plain && !let_eq.contains(&i) {
                return false;
            }
        }
        i += 1;
    }
    true
}

fn fingerprint(scan: &Scan, n: &Node) -> String {
    // kind | name | the names mentioned inside the node (identifiers, callees, fields, bindings), in order.
    // Operators and literals are deliberately not part of it.
    let mut names: Vec<&str> = vec![];
    for m in &scan.nodes {
        if m.range.start >= n.range.start && m.range.end <= n.range.end && !(m.range == n.range && m.kind == n.kind) {
            if matches!(m.kind, "let" | "call" | "mcall" | "macro" | "field" | "struct" | "path" | "assign") && !m.name.is_empty() {
                names.push(&m.name);
                if names.len() >= 12 {
                    break;
                }
            }
        }
    }
    format!("{}|{}|{}", n.kind, n.name, names.join(","))
}

/// Named anchors (`path sender#2`, `let years#1`, `mcall push`) are mostly leaves: what tells one occurrence from
/// another is the statement it sits in, so their fingerprint is that of the enclosing statement.
fn stmt_fingerprint(scan: &Scan, n: &Node) -> String {
    let mut names: Vec<&str> = vec![];
    for m in &scan.nodes {
        if m.range.start >= n.stmt.start && m.range.end <= n.stmt.end {
            if matches!(m.kind, "let" | "call" | "mcall" | "macro" | "field" | "struct" | "path" | "assign") && !m.name.is_empty() {
                names.push(&m.name);
                if names.len() >= 16 {
                    break;
                }
            }
        }
    }
    format!("{}|{}|S:{}", n.kind, n.name, names.join(","))
}

impl<'a> Gen<'a> {
    /// Resolve a single anchor with fingerprint protection. `cands` = the candidate nodes in pre-order.
    fn pick(&mut self, scan: &Scan, cands: Vec<&Node>, k: usize, named: bool, what: &str, ctx: &str) -> Node {
        let base = format!("{}|{}", self.key_prefix, what);
        let idx = self.key_seen.entry(base.clone()).or_insert(0);
        let key = format!("{}|{}", base, *idx);
        *idx += 1;
        // the ordinal recorded on the tree where the unit last verified supersedes the one written in the unit
        // (the unit text keeps the ordinal of the tree it was written against)
        let unique = cands.first().map(|n| matches!(n.kind, "start" | "end")).unwrap_or(false);
        let k = if unique { k } else { self.recorded.get(&key).map(|r| r.4).unwrap_or(k) };
        let at_k = cands.get(k).copied();
        if unique {
            return match at_k {
                Some(n) => n.clone(),
                None => undecided(&format!("{ctx}: lost anchor `{what}` ({} candidates)", cands.len())),
            };
        }
        let fingerprint = |scan: &Scan, n: &Node| if named { stmt_fingerprint(scan, n) } else { fingerprint(scan, n) };
        let rec = self.recorded.get(&key).cloned();
        let chosen: &Node = match rec {
            None => match at_k {
                Some(n) => n,
                None => undecided(&format!("{ctx}: lost anchor `{what}` ({} candidates)", cands.len())),
            },
            Some((fp, count, rank, nsame, _ord)) => {
                let same: Vec<&Node> = cands.iter().copied().filter(|n| fingerprint(scan, n) == fp).collect();
                let at_k_rank = at_k.and_then(|n| same.iter().position(|m| m.range == n.range));
                if at_k.is_some() && at_k_rank == Some(rank) {
                    at_k.unwrap()
                } else if cands.len() == count && at_k.is_some() {
                    // same number of such nodes: the anchored node was edited in place, not moved
                    at_k.unwrap()
                } else if same.len() == nsame && rank < same.len() {
                    self.log.push(json!({"rule": "re-anchored", "file": self.repo_file, "line": self.line_of(same[rank].range.start), "old": what, "note": "ordinal shifted by an edit; node found again by its fingerprint (and rank among look-alikes)"}));
                    same[rank]
                } else if same.len() == 1 && nsame == 1 {
                    self.log.push(json!({"rule": "re-anchored", "file": self.repo_file, "line": self.line_of(same[0].range.start), "old": what, "note": "ordinal shifted by an edit; node found again by its fingerprint"}));
                    same[0]
                } else if self.allow_gone && !same.is_empty() && same.len() < nsame {
                    // one of several look-alike nodes (e.g. two identical `map_err(|e| no_retry(e))` closures) was removed:
                    // keep the survivors in order; the directive of the removed one is dropped and the contracts judge the edit
                    if rank < same.len() {
                        same[rank]
                    } else {
                        self.gone = true;
                        same[same.len() - 1]
                    }
                } else {
                    undecided(&format!("{ctx}: anchor `{what}` moved: {} nodes of that kind now (recorded {}), {} match its fingerprint (recorded {})", cands.len(), count, same.len(), nsame))
                }
            }
        };
        let cfp = fingerprint(scan, chosen);
        let same: Vec<&&Node> = cands.iter().filter(|n| fingerprint(scan, n) == cfp).collect();
        let rank = same.iter().position(|n| n.range == chosen.range).unwrap_or(0);
        let ord = cands.iter().position(|n| n.range == chosen.range && n.kind == chosen.kind).unwrap_or(k);
        self.observed.insert(key, (cfp, cands.len(), rank, same.len(), ord));
        chosen.clone()
    }

    /// `KIND [NAME] [#k]` -> one node
    fn pick_anchor(&mut self, scan: &Scan, anchor: &str, directive: &str, ctx: &str) -> Node {
        self.pick_anchor_in(scan, anchor, directive, ctx, None)
    }

    /// `within`: only nodes inside that source range are candidates (ordinals count inside it)
    fn pick_anchor_in(&mut self, scan: &Scan, anchor: &str, directive: &str, ctx: &str, within: Option<Range<usize>>) -> Node {
        let mut a = anchor.trim().to_string();
        let mut k = 0usize;
        if let Some(p) = a.rfind('#') {
            k = a[p + 1..].trim().parse().unwrap_or_else(|_| undecided(&format!("{ctx}: bad anchor ordinal in `{anchor}`")));
            a.truncate(p);
        }
        let mut it = a.split_whitespace();
        let kind = it.next().unwrap_or("").to_string();
        let name = it.next().unwrap_or("").to_string();
        let cands: Vec<&Node> = scan.nodes.iter().filter(|n| n.kind == kind && (name.is_empty() || n.name == name))
            .filter(|n| within.as_ref().map(|w| w.start <= n.range.start && n.range.end <= w.end).unwrap_or(true)).collect();
        let named = !name.is_empty() && kind != "binop" || matches!(kind.as_str(), "start" | "end");
        self.pick(scan, cands, k, named, &format!("{directive} {}", anchor.trim()), ctx)
    }

    /// A renamed local / parameter must not lose an anchor or break a hint: the sequence of bound identifiers of the
    /// function is recorded with the anchors; when exactly the names at some positions differ (same length, the
    /// old names are gone, the new names are new) the unit's text for this function is alpha-renamed accordingly.
    /// A unit that fails to verify after such a renaming ends UNDECIDED (check), never as a violation.
    fn rename_locals(&mut self, sig: &syn::Signature, block: Option<&syn::Block>, spec: &FnSpec, fname: &str) -> FnSpec {
        let mut b = Bindings(vec![]);
        for inp in &sig.inputs {
            b.visit_fn_arg(inp);
        }
        let nparams = b.0.len();
        if let Some(bl) = block {
            b.visit_block(bl);
        }
        let key = format!("{}|{}|bindings", self.key_prefix, fname);
        let joined = b.0.join(",");
        let mut out = FnSpec { name: spec.name.clone(), sections: spec.sections.clone(), optional: spec.optional };
        if let Some((old, n, ..)) = self.recorded.get(&key).cloned() {
            let olds: Vec<&str> = if old.is_empty() { vec![] } else { old.split(',').collect() };
            if old != joined && n == b.0.len() && olds.len() == b.0.len() {
                let mut map: Vec<(String, String)> = vec![];
                // the signature's contract (requires / ensures) can only name parameters and the return value: body
                // locals are not in scope there, so only PARAMETER renamings apply to `sig` sections (a local `r`
                // renamed in the body must not touch a return value the unit happens to call `r`)
                let mut param_map: Vec<(String, String)> = vec![];
                let mut ok = true;
                for (i, (o, nw)) in olds.iter().zip(b.0.iter()).enumerate() {
                    if o != nw {
                        match map.iter().find(|(a, _)| a == o) {
                            Some((_, prev)) if prev != nw => ok = false,
                            Some(_) => {}
                            None => {
                                map.push((o.to_string(), nw.clone()));
                                if i < nparams {
                                    map.push((format!("{o}0"), format!("{nw}0"))); // R7 re-binding
                                    param_map.push((o.to_string(), nw.clone()));
                                    param_map.push((format!("{o}0"), format!("{nw}0")));
                                }
                            }
                        }
                    }
                }
                for (o, nw) in &map {
                    if olds.contains(&nw.as_str()) || b.0.contains(o) {
                        ok = false;
                    }
                }
                // an old name that is still bound at another position means the edit is not a pure renaming
                for (i, o) in olds.iter().enumerate() {
                    if map.iter().any(|(a, _)| a == o) && b.0[i] == *o {
                        ok = false;
                    }
                }
                if ok && !map.is_empty() {
                    // a body local that happens to share its name with the unit's name for the return value (`//@ret r`)
                    // is a different variable: the signature's contract keeps `r` (a unit-added `//@param` that shares
                    // its name with a local, e.g. the lock model's `state`, IS followed - the body text refers to it)
                    let ret_names: Vec<String> = out.sections.iter().filter(|s| s.kind == "ret").map(|s| s.arg.trim().to_string()).collect();
                    let sig_map: Vec<(String, String)> = map.iter().filter(|(o, _)| !ret_names.contains(o) || param_map.iter().any(|(po, _)| po == o)).cloned().collect();
                    let before: Vec<(String, String)> = out.sections.iter().map(|s| (s.arg.clone(), s.text.clone())).collect();
                    for s in out.sections.iter_mut() {
                        if matches!(s.kind.as_str(), "sig" | "ret" | "param") {
                            s.text = rename_idents(&s.text, &sig_map);
                            continue;
                        }
                        s.arg = rename_anchor_arg(&s.arg, &map);
                        s.text = rename_idents(&s.text, &map);
                    }
                    // the unit's text for this function never mentions the renamed identifiers (and no hand-written wrapper
                    // around a sub-region can either, see `renames`): the renaming cannot be at fault for anything, so it is
                    // not a reason to downgrade a failing contract to UNDECIDED
                    let changed = out.sections.iter().zip(before.iter()).any(|(s, (a, t))| s.arg != *a || s.text != *t);
                    let wrapper_mentions = self.in_sub; // a hand-written wrapper around a sub-region may name the locals: keep following
                    if !changed && !wrapper_mentions {
                        self.observed.insert(key, (joined, b.0.len(), 0, 0, 0));
                        return out;
                    }
                    let what = map.iter().filter(|(o, _)| olds.contains(&o.as_str())).map(|(o, n)| format!("{o} -> {n}")).collect::<Vec<_>>().join(", ");
                    self.log.push(json!({"rule": "renamed-local", "file": self.repo_file, "line": self.line_of(br(sig.span()).start), "old": what, "note": format!("fn {fname}: bound identifiers renamed since the anchors were recorded; the unit's text for this function is renamed accordingly")}));
                    self.renames.extend(map);
                }
            }
        }
        self.observed.insert(key, (joined, b.0.len(), 0, 0, 0));
        out
    }

    /// Closures: a closure that did not exist when the anchors were recorded has no contract (Verus knows nothing about what
    /// an unannotated closure returns), so a refactoring such as `match` -> `.and_then(|v| ..)` makes the function's proof fail
    /// for no semantic reason. The fingerprints of a function's closures are recorded with the anchors; a closure whose
    /// fingerprint is not among them is NEW (rule `new-closure` in the log; the driver does not report failures of such a
    /// function unless they persist in ANGELIC mode). Angelic mode (env VX_ANGELIC_NEW_CLOSURES=1): every new closure gets
    /// `ensures false` - whatever depends on what it returns becomes vacuous, so an obligation that still fails does not
    /// depend on the new closure at all (the closure's own "unable to prove post-condition of closure" is ignored by the driver).
    fn closures_check(&mut self, scan: &Scan, fname: &str, at: usize) {
        let cls: Vec<Node> = scan.nodes.iter().filter(|n| n.kind == "closure").cloned().collect();
        let fps: Vec<String> = cls.iter().map(|n| fingerprint(scan, n)).collect();
        let ckey = format!("{}|{}|closures", self.key_prefix, fname);
        if let Some((old, old_n, ..)) = self.recorded.get(&ckey).cloned() {
            let mut pool: Vec<&str> = if old.is_empty() { vec![] } else { old.split(';').collect() };
            let mut fresh: Vec<Node> = vec![];
            for (n, fp) in cls.iter().zip(fps.iter()) {
                match pool.iter().position(|o| *o == fp.as_str()) {
                    Some(i) => { pool.remove(i); }
                    None => fresh.push(n.clone()),
                }
            }
            // only an INCREASE in the number of closures counts: a closure edited in place keeps its contract's obligations
            if cls.len() > old_n && !fresh.is_empty() {
                let line = self.line_of(at);
                self.log.push(json!({"rule": "new-closure", "file": self.repo_file, "line": line, "old": fname.to_string(), "note": format!("fn {fname}: {} closure(s) now, {} when the anchors were recorded; a new closure has no contract", cls.len(), old_n)}));
                if std::env::var("VX_ANGELIC_NEW_CLOSURES").map(|v| v == "1").unwrap_or(false) {
                    // the (cls.len() - old_n) last unmatched closures in source order are taken as the new ones
                    let k = (cls.len() - old_n).min(fresh.len());
                    for n in fresh.iter().rev().take(k) {
                        let o = self.gen("angelic-closure");
                        self.ins(n.header_end.unwrap(), " ensures false ".into(), o.clone(), "angelic");
                        if n.block.is_none() {
                            let b = n.body.clone().unwrap();
                            self.ins(b.start, "{ ".into(), o.clone(), "angelic");
                            self.ins(b.end, " }".into(), o, "angelic");
                        }
                        let r = n.range.clone();
                        self.rule_log("angelic-closure", &r, "new closure given `ensures false` (second opinion only)");
                    }
                }
            }
        }
        self.observed.insert(ckey, (fps.join(";"), cls.len(), 0, 0, 0));
    }

    fn line_of(&self, byte: usize) -> usize {
        self.src[..byte].bytes().filter(|b| *b == b'\n').count() + 1
    }
    fn ins(&mut self, at: usize, text: String, origin: Origin, section: &str) {
        self.seq += 1;
        self.edits.push(Edit { start: at, end: at, seq: self.seq, text, origin, section: section.to_string(), copy: None });
    }
    fn ins_copy(&mut self, at: usize, text: String, origin: Origin, section: &str, copy: Range<usize>) {
        self.seq += 1;
        self.edits.push(Edit { start: at, end: at, seq: self.seq, text, origin, section: section.to_string(), copy: Some(copy) });
    }
    fn rep(&mut self, r: Range<usize>, text: String, origin: Origin, section: &str) {
        self.seq += 1;
        self.edits.push(Edit { start: r.start, end: r.end, seq: self.seq, text, origin, section: section.to_string(), copy: None });
    }
    fn rule_log(&mut self, rule: &str, r: &Range<usize>, note: &str) {
        let line = self.line_of(r.start);
        let old: String = self.src[r.clone()].chars().take(200).collect();
        self.log.push(json!({"rule": rule, "file": self.repo_file, "line": line, "old": old, "note": note}));
    }
    fn gen(&self, what: &str) -> Origin {
        Origin::Gen { what: what.to_string() }
    }

    /// R1: strip attributes (doc comments included); derive is reduced.
    fn strip_attrs(&mut self, attrs: &[syn::Attribute]) {
        if !self.rules.contains("R1") {
            return;
        }
        for a in attrs {
            let r = br(a.span());
            let name = a.path().segments.last().map(|s| s.ident.to_string()).unwrap_or_default();
            if name == "derive" {
                let txt = norm(&self.src[r.clone()]);
                let mut keep: Vec<&str> = vec![];
                let want: &[&str] = if self.rules.contains("R1eq") { &["Clone", "Copy", "PartialEq", "Eq"] } else { &["Clone", "Copy"] };
                for d in want.iter().copied() {
                    if txt.contains(&format!("({d},")) || txt.contains(&format!(",{d},")) || txt.contains(&format!(",{d})")) || txt.contains(&format!("({d})")) {
                        keep.push(d);
                    }
                }
                let mut new = String::new();
                if !keep.is_empty() {
                    new = format!("#[derive({})]", keep.join(", "));
                    if keep.contains(&"PartialEq") {
                        new.push_str(" #[derive(Structural)]");
                    }
                }
                self.rule_log("R1", &r, "derive reduced");
                let o = self.gen("R1");
                self.rep(r, new, o, "rewrite");
            } else if name == "doc" {
                let o = self.gen("R1");
                self.rep(r, String::new(), o, "rewrite");
            } else {
                self.rule_log("R1", &r, "attribute stripped");
                let o = self.gen("R1");
                self.rep(r, String::new(), o, "rewrite");
            }
        }
    }

    /// R2: visibility -> pub
    fn make_pub(&mut self, vis: &syn::Visibility, before: usize) {
        if !self.rules.contains("R2") {
            return;
        }
        match vis {
            syn::Visibility::Public(_) => {}
            syn::Visibility::Restricted(r) => {
                let o = self.gen("R2");
                self.rep(br(r.span()), "pub".into(), o, "rewrite");
            }
            syn::Visibility::Inherited => {
                let o = self.gen("R2");
                self.ins(before, "pub ".into(), o, "rewrite");
            }
        }
    }

    fn fields(&mut self, fields: &syn::Fields) {
        for f in fields.iter() {
            self.strip_attrs(&f.attrs);
            let at = match &f.ident {
                Some(i) => br(i.span()).start,
                None => br(f.ty.span()).start,
            };
            self.make_pub(&f.vis, at);
        }
    }

    fn do_fn(&mut self, attrs: &[syn::Attribute], vis: Option<&syn::Visibility>, sig: &syn::Signature, block: Option<&syn::Block>, spec: Option<&FnSpec>, in_trait_impl: bool) {
        self.do_fn_sub(attrs, vis, sig, block, spec, in_trait_impl, None);
    }

    /// `sub` = Some("stmts A .. B") / Some("block A"): only a region of the body is extracted; no signature edits.
    fn do_fn_sub(&mut self, attrs: &[syn::Attribute], vis: Option<&syn::Visibility>, sig: &syn::Signature, block: Option<&syn::Block>, spec: Option<&FnSpec>, in_trait_impl: bool, sub: Option<&str>) -> Option<Range<usize>> {
        let fname = sig.ident.to_string();
        let ctx = format!("{} fn {}", self.ctx, fname);
        self.in_sub = sub.is_some();
        let renamed_spec = spec.map(|s| self.rename_locals(sig, block, s, &fname));
        let spec = renamed_spec.as_ref();
        if sub.is_some() {
            let Some(block) = block else { undecided(&format!("{ctx}: no body")) };
            let blk = br(block.span());
            let mut scan = Scan { nodes: vec![], stmts: vec![], fn_block: blk.clone(), blocks: vec![], block_info: vec![] };
            scan.visit_block(block);
            scan.nodes.push(Node { kind: "start", name: String::new(), range: blk.start + 1..blk.start + 1, stmt: blk.start + 1..blk.start + 1, block: Some(blk.clone()), header_end: None, body: None, aux: None });
            scan.nodes.push(Node { kind: "end", name: String::new(), range: blk.end - 1..blk.end - 1, stmt: blk.end - 1..blk.end - 1, block: Some(blk.clone()), header_end: None, body: None, aux: None });
            let empty = FnSpec::default();
            let spec = spec.unwrap_or(&empty);
            self.closures_check(&scan, &fname, br(sig.span()).start);
            self.body_rules(block, &scan, spec);
            self.body_sections(&scan, spec, &ctx);
            let sub = sub.unwrap();
            let region = if let Some(a) = sub.strip_prefix("block ") {
                let n = self.pick_anchor(&scan, a, "region-block", &ctx);
                let Some(b) = n.block else { undecided(&format!("{ctx}: anchor `{a}` has no block")) };
                b.start + 1..b.end - 1
            } else if let Some(a) = sub.strip_prefix("expr ") {
                self.pick_anchor(&scan, a, "region-expr", &ctx).range.clone()
            } else if let Some(a) = sub.strip_prefix("stmts ") {
                let (from, to) = match a.find("..") { Some(p) => (a[..p].trim(), a[p + 2..].trim()), None => (a.trim(), a.trim()) };
                let f = self.pick_anchor(&scan, from, "region-from", &ctx).stmt.clone();
                let t = self.pick_anchor(&scan, to, "region-to", &ctx).stmt.clone();
                if t.end < f.start { undecided(&format!("{ctx}: statement range `{a}` is reversed")) }
                f.start..t.end
            } else {
                undecided(&format!("{ctx}: bad sub-region `{sub}`"))
            };
            if self.canary && !sub.starts_with("expr ") {
                let o = self.gen("canary");
                self.ins(region.start, " assert(false); ".into(), o, "canary");
            }
            return Some(region);
        }
        self.strip_attrs(attrs);
        if let (Some(v), false) = (vis, in_trait_impl) {
            let at = sig.constness.map(|c| br(c.span()).start).or(sig.asyncness.map(|c| br(c.span()).start)).or(sig.unsafety.map(|c| br(c.span()).start)).unwrap_or(br(sig.fn_token.span()).start);
            self.make_pub(v, at);
        }
        // R14 / R7 on parameters
        let mut rebinding = String::new();
        let mut k = 0;
        for inp in &sig.inputs {
            if let syn::FnArg::Typed(pt) = inp {
                match &*pt.pat {
                    syn::Pat::Wild(w) if self.rules.contains("R14") => {
                        let r = br(w.span());
                        self.rule_log("R14", &r, "wildcard parameter named");
                        let o = self.gen("R14");
                        self.rep(r, format!("_p{k}"), o, "rewrite");
                        k += 1;
                    }
                    syn::Pat::Ident(pi) if pi.mutability.is_some() && pi.by_ref.is_none() && self.rules.contains("R7") => {
                        let r = br(pi.span());
                        self.rule_log("R7", &r, "mut parameter re-bound in the body");
                        let o = self.gen("R7");
                        self.rep(r, format!("{}0", pi.ident), o, "rewrite");
                        rebinding.push_str(&format!("let mut {} = {}0; ", pi.ident, pi.ident));
                    }
                    _ => {}
                }
            }
        }
        let empty = FnSpec::default();
        let spec = spec.unwrap_or(&empty);
        // return name
        let mut named_ret = false;
        for s in spec.sections.iter().filter(|s| s.kind == "ret") {
            if let syn::ReturnType::Type(_, t) = &sig.output {
                let tr = br(t.span());
                let o = Origin::Unit { file: s.file.clone(), line: s.line0 - 1 };
                self.ins(tr.start, format!("({}: ", s.arg), o.clone(), "ret");
                self.ins(tr.end, ")".into(), o, "ret");
                named_ret = true;
            } else {
                undecided(&format!("{ctx}: //@ret on a function without return type"));
            }
        }
        let _ = named_ret;
        // extra params
        for s in spec.sections.iter().filter(|s| s.kind == "param") {
            let at = br(sig.paren_token.span.close()).start;
            let sep = if sig.inputs.is_empty() || sig.inputs.trailing_punct() { "" } else { ", " };
            let o = Origin::Unit { file: s.file.clone(), line: s.line0 };
            self.ins(at, format!("{sep}{}", s.text.trim()), o, "param");
        }
        let Some(block) = block else {
            // trait method without body: contract goes before the `;`
            for s in spec.sections.iter().filter(|s| s.kind == "sig") {
                let at = br(sig.span()).end;
                let o = Origin::Unit { file: s.file.clone(), line: s.line0 };
                self.ins(at, format!("\n{}", s.text), o, "sig");
            }
            return None;
        };
        let blk = br(block.span());
        for s in spec.sections.iter().filter(|s| s.kind == "sig") {
            let o = Origin::Unit { file: s.file.clone(), line: s.line0 };
            self.ins(blk.start, format!("\n{}", s.text), o, "sig");
        }
        if !rebinding.is_empty() {
            let o = self.gen("R7");
            self.ins(blk.start + 1, format!(" {rebinding}"), o, "rewrite");
        }
        if self.canary {
            let o = self.gen("canary");
            self.ins(blk.start + 1, " assert(false); ".into(), o, "canary");
        }
        // scan the body
        let mut scan = Scan { nodes: vec![], stmts: vec![], fn_block: blk.clone(), blocks: vec![], block_info: vec![] };
        scan.visit_block(block);
        scan.nodes.push(Node { kind: "start", name: String::new(), range: blk.start + 1..blk.start + 1, stmt: blk.start + 1..blk.start + 1, block: Some(blk.clone()), header_end: None, body: None, aux: None });
        scan.nodes.push(Node { kind: "end", name: String::new(), range: blk.end - 1..blk.end - 1, stmt: blk.end - 1..blk.end - 1, block: Some(blk.clone()), header_end: None, body: None, aux: None });
        let _ = &scan.fn_block;
        // R7 on a by-value `mut self` receiver: `self` + `let mut this = self;` + every `self` in the body -> `this`
        if self.rules.contains("R7") {
            if let Some(syn::FnArg::Receiver(rcv)) = sig.inputs.first() {
                if rcv.reference.is_none() && rcv.mutability.is_some() {
                    let m = br(rcv.mutability.unwrap().span());
                    self.rule_log("R7", &m, "`mut self` receiver re-bound as `this` in the body");
                    let o = self.gen("R7");
                    self.rep(m.start..br(rcv.self_token.span()).start, String::new(), o.clone(), "rewrite");
                    self.ins(blk.start + 1, " let mut this = self; ".into(), o.clone(), "rewrite");
                    let uses: Vec<Range<usize>> = scan.nodes.iter().filter(|n| n.kind == "path" && n.name == "self").map(|n| n.range.clone()).collect();
                    for r in uses {
                        self.rep(r, "this".into(), o.clone(), "rewrite");
                    }
                }
            }
        }
        // generic body rewrites
        self.closures_check(&scan, &fname, br(sig.span()).start);
        self.body_rules(block, &scan, spec);
        self.body_sections(&scan, spec, &ctx);
        None
    }

    fn body_sections(&mut self, scan: &Scan, spec: &FnSpec, ctx: &str) {
        let scan = scan;
        self.unwind_rule(scan, spec, ctx);
        for s in &spec.sections {
            let o = Origin::Unit { file: s.file.clone(), line: s.line0 };
            let sctx = format!("{ctx} ({}:{})", s.file, s.line0 - 1);
            match s.kind.as_str() {
                "ret" | "sig" | "param" | "guard" | "guard-param" | "unwind-each" => {}
                "loop" if s.arg.trim().ends_with(".chain") => {
                    if !self.rules.contains("R12") {
                        undecided(&format!("{sctx}: //@loop K.chain needs rule R12"));
                    }
                }
                "loop" => {
                    let k: usize = s.arg.trim().parse().unwrap_or_else(|_| undecided(&format!("{sctx}: bad loop ordinal")));
                    let loops: Vec<&Node> = scan.nodes.iter().filter(|n| matches!(n.kind, "while" | "for" | "loop")).collect();
                    let n = self.pick(scan, loops, k, false, &format!("loop {k}"), &sctx);
                    self.ins(n.header_end.unwrap(), format!("\n{}", s.text), o, &format!("loop{k}"));
                }
                "closure" => {
                    self.allow_gone = true;
                    self.gone = false;
                    let n = self.pick_anchor(scan, &format!("closure #{}", s.arg.trim()), "closure", &sctx);
                    self.allow_gone = false;
                    if self.gone {
                        self.gone = false;
                        self.log.push(json!({"rule": "directive-dropped", "file": self.repo_file, "line": 0, "old": format!("closure {}", s.arg.trim()), "note": "one of several look-alike closures was removed by an edit; its spec is not applied"}));
                        continue;
                    }
                    self.ins(n.header_end.unwrap(), format!(" {}", s.text), o, &format!("closure{}", s.arg.trim()));
                    if n.block.is_none() {
                        let b = n.body.clone().unwrap();
                        let g = self.gen("closure-braces");
                        self.ins(b.start, "{ ".into(), g.clone(), "rewrite");
                        self.ins(b.end, " }".into(), g, "rewrite");
                    }
                }
                "before" | "after" | "before-each" | "after-each" => {
                    let all = s.kind.ends_with("-each");
                    let before = s.kind.starts_with("before");
                    let nodes: Vec<Node> = if all { resolve(scan, &s.arg, true, &sctx).into_iter().cloned().collect() } else { vec![self.pick_anchor(scan, &s.arg, &s.kind, &sctx)] };
                    for n in nodes {
                        let mut at = if before { n.stmt.start } else { n.stmt.end };
                        // every single-anchor hint has a key; a shift moves it over sibling statements of its block
                        if !all && shiftable(&s.text) {
                            let base = format!("{}|{} {}", self.key_prefix, s.kind, s.arg.trim());
                            let i = self.hint_seen.entry(base.clone()).or_insert(0);
                            let hkey = format!("{}|{}", base, *i);
                            *i += 1;
                            self.hint_keys.push(hkey.clone());
                            if let Some(d) = self.shifts.get(&hkey).copied() {
                                if let Some(list) = scan.blocks.iter().find(|l| l.iter().any(|r| *r == n.stmt)) {
                                    let idx = list.iter().position(|r| *r == n.stmt).unwrap() as i64;
                                    // positions between statements: before stmt j == slot j, after stmt j == slot j+1
                                    let slot = if before { idx } else { idx + 1 } + d;
                                    if slot >= 0 && slot <= list.len() as i64 {
                                        at = if slot == list.len() as i64 { list[list.len() - 1].end } else { list[slot as usize].start };
                                        self.log.push(json!({"rule": "hint-shift", "file": self.repo_file, "line": self.line_of(at), "old": hkey, "note": format!("hint moved by {d} sibling statement(s)")}));
                                    }
                                }
                            }
                        }
                        let sec = format!("{}:{}", s.kind, s.arg);
                        if before {
                            self.ins(at, format!("{}\n", s.text), o.clone(), &sec);
                        } else {
                            self.ins(at, format!("\n{}", s.text), o.clone(), &sec);
                        }
                    }
                }
                "inside-start" | "inside-end" => {
                    let n = self.pick_anchor(scan, &s.arg, &s.kind, &sctx);
                    let Some(b) = n.block else { undecided(&format!("{sctx}: anchor `{}` has no block", s.arg)) };
                    let sec = format!("{}:{}", s.kind, s.arg);
                    if s.kind == "inside-start" {
                        self.ins(b.start + 1, format!("\n{}", s.text), o, &sec);
                    } else {
                        self.ins(b.end - 1, format!("\n{}", s.text), o, &sec);
                    }
                }
                "wrap" | "replace" | "delete" => {
                    let (rule, anchor) = match s.arg.find(char::is_whitespace) {
                        Some(p) => (s.arg[..p].to_string(), s.arg[p..].trim().to_string()),
                        None => undecided(&format!("{sctx}: //@{} needs RULE ANCHOR", s.kind)),
                    };
                    if !self.rules.contains(&rule) {
                        undecided(&format!("{sctx}: rule {rule} not enabled for this item"));
                    }
                    let n = self.pick_anchor(scan, &anchor, &s.kind, &sctx);
                    let sec = format!("{}:{}", s.kind, anchor);
                    match s.kind.as_str() {
                        "wrap" => {
                            let t = s.text.trim();
                            let Some(p) = t.find("$$") else { undecided(&format!("{sctx}: //@wrap body needs $$")) };
                            self.rule_log(&rule, &n.range, &format!("wrapped as `{t}`"));
                            self.ins(n.range.start, t[..p].to_string(), o.clone(), &sec);
                            self.ins(n.range.end, t[p + 2..].to_string(), o, &sec);
                        }
                        "replace" => {
                            self.rule_log(&rule, &n.range, &format!("replaced by `{}`", s.text.trim()));
                            self.rep(n.range.clone(), s.text.trim_end().to_string(), o, &sec);
                        }
                        _ => {
                            self.rule_log(&rule, &n.stmt, "statement deleted");
                            self.rep(n.stmt.clone(), s.text.trim_end().to_string(), o, &sec);
                        }
                    }
                }
                "wrap-each" | "replace-each" | "delete-each" | "arg-each" => {
                    let (rule, anchor) = match s.arg.find(char::is_whitespace) {
                        Some(p) => (s.arg[..p].to_string(), s.arg[p..].trim().to_string()),
                        None => undecided(&format!("{sctx}: //@{} needs RULE ANCHOR", s.kind)),
                    };
                    if !self.rules.contains(&rule) {
                        undecided(&format!("{sctx}: rule {rule} not enabled for this item"));
                    }
                    let nodes: Vec<Node> = resolve(scan, &anchor, true, &sctx).into_iter().cloned().collect();
                    let sec = format!("{}:{}", s.kind, anchor);
                    for n in nodes {
                        match s.kind.as_str() {
                            "wrap-each" => {
                                let t = s.text.trim();
                                let Some(p) = t.find("$$") else { undecided(&format!("{sctx}: //@wrap-each body needs $$")) };
                                self.rule_log(&rule, &n.range, &format!("wrapped as `{t}`"));
                                self.ins(n.range.start, t[..p].to_string(), o.clone(), &sec);
                                self.ins(n.range.end, t[p + 2..].to_string(), o.clone(), &sec);
                            }
                            "replace-each" => {
                                self.rule_log(&rule, &n.range, &format!("replaced by `{}`", s.text.trim()));
                                self.rep(n.range.clone(), s.text.trim_end().to_string(), o.clone(), &sec);
                            }
                            "delete-each" => {
                                self.rule_log(&rule, &n.stmt, "statement deleted");
                                self.rep(n.stmt.clone(), s.text.trim_end().to_string(), o.clone(), &sec);
                            }
                            _ => {
                                let Some((close, has)) = n.aux else { undecided(&format!("{sctx}: //@arg-each needs a call or mcall anchor")) };
                                self.rule_log(&rule, &n.range, &format!("argument `{}` appended", s.text.trim()));
                                self.ins(close, format!("{}{}", if has { ", " } else { "" }, s.text.trim()), o.clone(), &sec);
                            }
                        }
                    }
                }
                "splice" => {
                    // //@splice RULE OUTER | INNER : OUTER's text becomes `prefix INNER-text suffix`
                    let (rule, rest) = match s.arg.find(char::is_whitespace) {
                        Some(p) => (s.arg[..p].to_string(), s.arg[p..].trim().to_string()),
                        None => undecided(&format!("{sctx}: //@splice needs RULE OUTER | INNER")),
                    };
                    if !self.rules.contains(&rule) {
                        undecided(&format!("{sctx}: rule {rule} not enabled for this item"));
                    }
                    let Some(bar) = rest.find('|') else { undecided(&format!("{sctx}: //@splice needs OUTER | INNER")) };
                    let outer = self.pick_anchor(scan, rest[..bar].trim(), "splice-outer", &sctx);
                    let inner = self.pick_anchor(scan, rest[bar + 1..].trim(), "splice-inner", &sctx);
                    let inner_r = if inner.kind == "closure" { inner.body.clone().unwrap() } else { inner.range.clone() };
                    if !(outer.range.start <= inner_r.start && inner_r.end <= outer.range.end) {
                        undecided(&format!("{sctx}: //@splice inner node is not inside the outer node"));
                    }
                    let t = s.text.trim();
                    let Some(p) = t.find("$$") else { undecided(&format!("{sctx}: //@splice body needs $$")) };
                    let sec = format!("splice:{}", rest);
                    self.rule_log(&rule, &outer.range, &format!("spliced as `{t}` with $$ = the inner node's text"));
                    self.rep(outer.range.start..inner_r.start, t[..p].to_string(), o.clone(), &sec);
                    self.rep(inner_r.end..outer.range.end, t[p + 2..].to_string(), o, &sec);
                }
                other => undecided(&format!("{sctx}: section //@{other} not valid in a function")),
            }
        }
    }

    /// Rule R17 - implicit drop edges made explicit, on the normal AND on the unwinding path.
    ///   //@guard R17 ANCHOR [argc=0] | DROP-TEXT   every `let NAME = <.. a node matching ANCHOR ..>;` declares a scope guard; DROP-TEXT
    ///                                          (with `$g` = NAME) is the statement that runs its destructor; `argc=0` restricts the pattern
    ///                                          to calls without arguments
    ///   //@guard-param R17 NAME | DROP-TEXT    a by-value parameter with a destructor (dropped after every local, at the end of the body)
    ///   //@unwind-each R17 ANCHOR              every node matching ANCHOR is a call that may panic; the section text is a template with
    ///                                          `$$` = the call's real text and `$unwind` = the destructor statements of the guards that are
    ///                                          LIVE at that point, in reverse declaration order (what unwinding runs)
    /// Normal path: at the end of the block that declares a guard the destructors run after the block's tail expression has been
    /// evaluated: `{ ..; T }` becomes `{ ..; let __r17 = T; DROPS __r17 }`. The guards are found by PATTERN in the real text (like the
    /// effect sinks of R9): a body that no longer binds the guard gets no destructor call, and is judged so.
    /// Not supported (UNDECIDED, never an alarm): `return` / `?` while a guard is live, `break` / `continue` out of a guard's block,
    /// a guard expression that is not bound by a plain `let NAME`.
    fn unwind_rule(&mut self, scan: &Scan, spec: &FnSpec, ctx: &str) {
        #[allow(dead_code)]
        struct Guard { name: String, let_end: usize, block: Range<usize>, bidx: usize, drop: String }
        let secs: Vec<&Section> = spec.sections.iter().filter(|s| matches!(s.kind.as_str(), "guard" | "guard-param" | "unwind-each")).collect();
        if secs.is_empty() {
            return;
        }
        if !self.rules.contains("R17") {
            undecided(&format!("{ctx}: //@guard / //@unwind-each need rule R17"));
        }
        let split = |s: &Section| -> (String, String) {
            let a = s.arg.trim();
            let a = a.strip_prefix("R17").map(|x| x.trim()).unwrap_or_else(|| undecided(&format!("{ctx}: //@{} needs `R17 ..`", s.kind)));
            match a.find('|') {
                Some(p) => (a[..p].trim().to_string(), a[p + 1..].trim().to_string()),
                None => (a.to_string(), String::new()),
            }
        };
        let mut guards: Vec<Guard> = vec![];
        let mut params: Vec<(String, String)> = vec![];
        for s in &secs {
            let sctx = format!("{ctx} ({}:{})", s.file, s.line0 - 1);
            match s.kind.as_str() {
                "guard" => {
                    let (anchor, drop) = split(s);
                    if drop.is_empty() { undecided(&format!("{sctx}: //@guard needs `R17 ANCHOR | DROP-TEXT`")) }
                    // optional filter `argc=0`: only calls without arguments (`x.enter()` returns the guard, `ctxt.enter(&mut frame)` does not)
                    let (anchor, noargs) = match anchor.strip_suffix("argc=0") { Some(a) => (a.trim().to_string(), true), None => (anchor, false) };
                    for n in resolve(scan, &anchor, true, &sctx) {
                        if noargs && n.aux.map(|(_, has)| has).unwrap_or(false) {
                            continue;
                        }
                        let lets: Vec<&Node> = scan.nodes.iter().filter(|m| m.kind == "let" && m.range == n.stmt).collect();
                        if lets.len() != 1 || lets[0].name.is_empty() || lets[0].name == "_" {
                            undecided(&format!("{sctx}: R17: the guard expression at line {} is not bound by a plain `let NAME` (a temporary or `let _` is dropped at once: not supported)", self.line_of(n.range.start)));
                        }
                        let Some(bidx) = scan.blocks.iter().position(|l| l.iter().any(|r| *r == n.stmt)) else { undecided(&format!("{sctx}: R17: no enclosing block")) };
                        if guards.iter().any(|g| g.let_end == n.stmt.end) {
                            continue;
                        }
                        guards.push(Guard { name: lets[0].name.clone(), let_end: n.stmt.end, block: scan.block_info[bidx].0.clone(), bidx, drop: drop.replace("$g", &lets[0].name) });
                    }
                }
                "guard-param" => {
                    let (name, drop) = split(s);
                    params.push((name.clone(), drop.replace("$g", &name)));
                }
                _ => {}
            }
        }
        guards.sort_by_key(|g| g.let_end);
        // early exits while a guard is live: not supported
        for n in scan.nodes.iter().filter(|n| matches!(n.kind, "return" | "try" | "break" | "continue")) {
            let live_local = guards.iter().any(|g| g.let_end <= n.range.start && g.block.start <= n.range.start && n.range.end <= g.block.end);
            let blocking = match n.kind {
                "return" => false, // handled below: the live guards' destructors run before the return
                "try" => live_local || !params.is_empty(),
                _ => guards.iter().any(|g| g.let_end <= n.range.start && g.block.start <= n.range.start && n.range.end <= g.block.end
                    && !scan.nodes.iter().any(|l| matches!(l.kind, "while" | "for" | "loop") && g.block.start <= l.range.start && l.range.end <= g.block.end && l.range.start <= n.range.start && n.range.end <= l.range.end)),
            };
            if blocking {
                undecided(&format!("{ctx}: R17: `{}` at line {} leaves a scope while a guard is live (not supported)", n.kind, self.line_of(n.range.start)));
            }
        }
        let o = self.gen("R17");
        // normal path: destructors at the end of the declaring block (locals in reverse order, then by-value parameters at the body's end)
        let fn_bidx = scan.block_info.iter().position(|(r, _)| *r == scan.fn_block);
        let mut bidxs: Vec<usize> = guards.iter().map(|g| g.bidx).collect();
        if !params.is_empty() {
            if let Some(b) = fn_bidx { bidxs.push(b) } else { undecided(&format!("{ctx}: R17: //@guard-param needs a whole-function extraction")) }
        }
        bidxs.sort();
        bidxs.dedup();
        let mut closing: Vec<(usize, String)> = vec![];
        for (k, b) in bidxs.iter().enumerate() {
            let (range, tail) = scan.block_info[*b].clone();
            let mut drops = String::new();
            for g in guards.iter().rev().filter(|g| g.bidx == *b) {
                drops.push_str(&g.drop);
                drops.push(' ');
            }
            if Some(*b) == fn_bidx {
                for (_, d) in &params {
                    drops.push_str(d);
                    drops.push(' ');
                }
            }
            self.rule_log("R17", &range, &format!("scope-end destructor calls made explicit: `{}`", drops.trim()));
            match tail {
                Some(t) => {
                    // the opening part now, the closing part after the unwind edges (a may-panic call can BE the tail expression)
                    self.ins(t.start, format!("let __r17_{k} = "), o.clone(), "rewrite");
                    closing.push((t.end, format!("; {drops}__r17_{k}")));
                }
                None => closing.push((range.end - 1, format!(" {drops}"))),
            }
        }
        // unwinding path: at every call that may panic, the destructors of the live guards
        for s in secs.iter().filter(|s| s.kind == "unwind-each") {
            let sctx = format!("{ctx} ({}:{})", s.file, s.line0 - 1);
            let (anchor, _) = split(s);
            let t = s.text.trim();
            let Some(p) = t.find("$$") else { undecided(&format!("{sctx}: //@unwind-each body needs $$")) };
            let uo = Origin::Unit { file: s.file.clone(), line: s.line0 };
            for n in resolve(scan, &anchor, true, &sctx).into_iter().cloned().collect::<Vec<Node>>() {
                let mut drops = String::new();
                for g in guards.iter().rev().filter(|g| g.let_end <= n.range.start && g.block.start <= n.range.start && n.range.end <= g.block.end) {
                    drops.push_str(&g.drop);
                    drops.push(' ');
                }
                for (_, d) in &params {
                    drops.push_str(d);
                    drops.push(' ');
                }
                self.rule_log("R17", &n.range, &format!("may-panic call: unwind edge with destructor calls `{}`", drops.trim()));
                let sec = format!("unwind-each:{anchor}");
                self.ins(n.range.start, t[..p].replace("$unwind", &drops), uo.clone(), &sec);
                self.ins(n.range.end, t[p + 2..].replace("$unwind", &drops), uo.clone(), &sec);
            }
        }
        for (at, text) in closing {
            self.ins(at, text, o.clone(), "rewrite");
        }
        // `return E` while guards are live: `{ let __r = E; <destructors of the live guards, reverse order, then parameters> return __r; }`
        for (k, n) in scan.nodes.iter().filter(|n| n.kind == "return").cloned().collect::<Vec<Node>>().into_iter().enumerate() {
            let mut drops = String::new();
            for g in guards.iter().rev().filter(|g| g.let_end <= n.range.start && g.block.start <= n.range.start && n.range.end <= g.block.end) {
                drops.push_str(&g.drop);
                drops.push(' ');
            }
            for (_, d) in &params {
                drops.push_str(d);
                drops.push(' ');
            }
            if drops.is_empty() {
                continue;
            }
            self.rule_log("R17", &n.range, &format!("`return` with live guards: destructor calls `{}` before it", drops.trim()));
            match n.body.clone() {
                Some(e) => {
                    self.rep(n.range.start..e.start, format!("{{ let __r17r_{k} = "), o.clone(), "rewrite");
                    self.ins(e.end, format!("; {drops}return __r17r_{k}; }}"), o.clone(), "rewrite");
                }
                None => {
                    self.rep(n.range.clone(), format!("{{ {drops}return; }}"), o.clone(), "rewrite");
                }
            }
        }
    }

    fn const_rules(&mut self, e: &syn::Expr, scan: &Scan, spec: &FnSpec) {
        // wrap the expression in a block so the same visitor applies
        let stmt = syn::Stmt::Expr(e.clone(), None);
        let blk = syn::Block { brace_token: Default::default(), stmts: vec![stmt] };
        self.body_rules(&blk, scan, spec);
    }

    fn body_rules(&mut self, block: &syn::Block, scan: &Scan, spec: &FnSpec) {
        struct V<'g, 'a, 's> {
            g: &'g mut Gen<'a>,
            scan: &'s Scan,
            spec: &'s FnSpec,
        }
        impl<'g, 'a, 's, 'ast> Visit<'ast> for V<'g, 'a, 's> {
            fn visit_stmt(&mut self, s: &'ast syn::Stmt) {
                if let syn::Stmt::Item(it) = s {
                    // nested items are addressed by their own path, except that the value-preserving
                    // literal rewrite R13 also applies to nested consts
                    if let syn::Item::Const(c) = it {
                        if self.g.rules.contains("R13") {
                            self.visit_expr(&c.expr);
                        }
                    }
                    return;
                }
                if let syn::Stmt::Macro(m) = s {
                    let p = norm(&self.g.src[br(m.mac.path.span())]);
                    if self.g.rules.contains("R5") && matches!(p.as_str(), "emit::warn" | "emit::debug" | "emit::error" | "emit::info" | "emit::emit" | "emit::debug_span" | "emit::info_span") {
                        let r = br(s.span());
                        self.g.rule_log("R5", &r, "self-diagnostics statement deleted");
                        let o = self.g.gen("R5");
                        self.g.rep(r, String::new(), o, "rewrite");
                        return;
                    }
                }
                syn::visit::visit_stmt(self, s);
            }
            fn visit_expr(&mut self, e: &'ast syn::Expr) {
                match e {
                    syn::Expr::Closure(c) if self.g.rules.contains("R14") => {
                        for (k, inp) in c.inputs.iter().enumerate() {
                            let w = match inp {
                                syn::Pat::Wild(w) => Some(br(w.span())),
                                syn::Pat::Type(t) => if let syn::Pat::Wild(w) = &*t.pat { Some(br(w.span())) } else { None },
                                _ => None,
                            };
                            if let Some(r) = w {
                                self.g.rule_log("R14", &r, "wildcard closure parameter named");
                                let o = self.g.gen("R14");
                                self.g.rep(r, format!("_c{k}"), o, "rewrite");
                            }
                        }
                    }
                    syn::Expr::ForLoop(fl) if self.g.rules.contains("G3") && fl.label.is_none() => {
                        // G3: `for PAT in EXPR { B }` -> `{ let mut it = IntoIterator::into_iter(EXPR); loop <spec> { let Some(PAT) =
                        // it.next() else { break; }; B } }` - the desugaring of `for`, spelled out, because Verus rejects `continue`
                        // inside a `for` but accepts it inside a `loop`. PAT, EXPR and B are the real text; `//@loop K` text lands
                        // between `loop` and the body as for any loop, `//@inside-start for#K` after the `let Some(..)` line.
                        let whole = br(e.span());
                        let pat = self.g.src[br(fl.pat.span())].to_string();
                        let expr = br(fl.expr.span());
                        let body = br(fl.body.span());
                        self.g.rule_log("G3", &whole, "`for` spelled out as into_iter + loop + next (so that `continue` is accepted)");
                        let o = self.g.gen("G3");
                        self.g.rep(whole.start..expr.start, "{ let mut it = core::iter::IntoIterator::into_iter(".into(), o.clone(), "rewrite");
                        self.g.ins(expr.end, "); loop ".into(), o.clone(), "rewrite");
                        self.g.ins(body.start + 1, format!(" let Some({pat}) = it.next() else {{ break; }}; "), o.clone(), "rewrite");
                        self.g.ins(body.end, " }".into(), o, "rewrite");
                    }
                    syn::Expr::ForLoop(fl) if self.g.rules.contains("R12") => {
                        if let syn::Expr::MethodCall(mc) = &*fl.expr {
                            if mc.method == "chain" && mc.args.len() == 1 {
                                let whole = br(e.span());
                                let recv_end = br(mc.receiver.span()).end;
                                let iter_end = br(fl.expr.span()).end;
                                let second = self.g.src[br(mc.args[0].span())].to_string();
                                let pat = self.g.src[br(fl.pat.span())].to_string();
                                let body = br(fl.body.span());
                                // ordinal of this loop among the function's loops
                                let loops: Vec<&Node> = self.scan.nodes.iter().filter(|n| matches!(n.kind, "while" | "for" | "loop")).collect();
                                let k = loops.iter().position(|n| n.range == whole).unwrap_or(usize::MAX);
                                let want = format!("{k}.chain");
                                let inv = self.spec.sections.iter().find(|s| s.kind == "loop" && s.arg.trim() == want);
                                self.g.rule_log("R12", &whole, "for over a.chain(b) split into two loops");
                                let o = self.g.gen("R12");
                                self.g.rep(recv_end..iter_end, String::new(), o.clone(), "rewrite");
                                let (inv_text, inv_o) = match inv {
                                    Some(s) => (format!("\n{}", s.text), Origin::Unit { file: s.file.clone(), line: s.line0 }),
                                    None => (String::new(), o.clone()),
                                };
                                self.g.ins(whole.end, format!("\nfor {pat} in {second} "), o, "rewrite");
                                self.g.ins_copy(whole.end, inv_text, inv_o, &format!("loop{want}"), body);
                            }
                        }
                    }
                    syn::Expr::Binary(b) if self.g.rules.contains("R11") && matches!(b.op, syn::BinOp::RemAssign(_) | syn::BinOp::DivAssign(_)) => {
                        let op = if matches!(b.op, syn::BinOp::RemAssign(_)) { "%" } else { "/" };
                        let r = br(b.op.span());
                        let lhs = self.g.src[br(b.left.span())].to_string();
                        self.g.rule_log("R11", &br(e.span()), "compound assignment expanded");
                        let o = self.g.gen("R11");
                        self.g.rep(r, format!("= {lhs} {op}"), o, "rewrite");
                    }
                    syn::Expr::Try(t) if self.g.rules.contains("R3") => {
                        let q = br(t.question_token.span());
                        let er = br(t.expr.span());
                        self.g.rule_log("R3", &br(e.span()), "`?` on ControlFlow desugared");
                        let o = self.g.gen("R3");
                        self.g.ins(er.start, "(match ".into(), o.clone(), "rewrite");
                        self.g.rep(q, " { core::ops::ControlFlow::Continue(c) => c, core::ops::ControlFlow::Break(b) => return core::ops::ControlFlow::Break(b) })".into(), o, "rewrite");
                    }
                    syn::Expr::Lit(l) if self.g.rules.contains("R13") => {
                        if let syn::Lit::ByteStr(bs) = &l.lit {
                            let r = br(l.span());
                            let bytes = bs.value();
                            let arr = format!("[{}]", bytes.iter().map(|b| format!("{b}u8")).collect::<Vec<_>>().join(", "));
                            self.g.rule_log("R13", &r, "byte-string literal as array literal");
                            let o = self.g.gen("R13");
                            // `*b".."` -> array value; `b".."` -> reference to array
                            self.g.rep(r, format!("(&{arr})"), o, "rewrite");
                        }
                    }
                    _ => {}
                }
                syn::visit::visit_expr(self, e);
            }
        }
        let mut v = V { g: self, scan, spec };
        v.visit_block(block);
    }
}

fn apply(src: &str, region: Range<usize>, all_edits: Vec<Edit>, file: &str, func: &str, out: &mut Vec<Piece>, ctx: &str) {
    let mut edits = all_edits.clone();
    edits.retain(|e| e.start >= region.start && e.end <= region.end);
    edits.sort_by(|a, b| a.start.cmp(&b.start).then((a.end != a.start).cmp(&(b.end != b.start))).then(a.seq.cmp(&b.seq)));
    let mut cur = region.start;
    let line_of = |b: usize| src[..b].bytes().filter(|c| *c == b'\n').count() + 1;
    let mut covered_to = region.start; // end of the last replacement
    for e in edits {
        if e.start < cur {
            if e.end <= covered_to {
                continue; // edit inside a replaced region: dropped with it
            }
            undecided(&format!("{ctx}: overlapping edits at {file}:{}", line_of(e.start)));
        }
        if e.start > cur {
            out.push(Piece { text: src[cur..e.start].to_string(), origin: Origin::Repo { file: file.to_string(), byte: cur, line: line_of(cur) }, func: func.to_string(), section: "body".into(), pos: cur });
        }
        if !e.text.is_empty() {
            out.push(Piece { text: e.text.clone(), origin: e.origin.clone(), func: func.to_string(), section: e.section.clone(), pos: e.start });
        }
        if let Some(c) = &e.copy {
            // only edits strictly inside the copied region (not the loop's own invariant, not the chain edits)
            let inner: Vec<Edit> = all_edits.iter().filter(|x| x.copy.is_none() && x.start > c.start && x.end < c.end).cloned().collect();
            apply(src, c.clone(), inner, file, func, out, ctx);
        }
        cur = e.end;
        if e.end > e.start {
            covered_to = e.end;
        }
    }
    if cur < region.end {
        out.push(Piece { text: src[cur..region.end].to_string(), origin: Origin::Repo { file: file.to_string(), byte: cur, line: line_of(cur) }, func: func.to_string(), section: "body".into(), pos: cur });
    }
}

fn glue(out: &mut Vec<Piece>, text: &str, what: &str) {
    out.push(Piece { text: text.to_string(), origin: Origin::Gen { what: what.to_string() }, func: String::new(), section: "glue".into(), pos: 0 });
}

fn region_start(attrs: &[syn::Attribute], whole: Range<usize>) -> usize {
    attrs.iter().map(|a| br(a.span()).start).min().unwrap_or(whole.start).min(whole.start)
}

fn main() {
    let args: Vec<String> = std::env::args().collect();
    if args.len() < 3 || args[1] != "gen" {
        eprintln!("usage: vx gen <unit.vx> --repo DIR --out FILE --map FILE [--canary]");
        std::process::exit(2);
    }
    let mut repo = "/repo".to_string();
    let mut outp = String::new();
    let mut mapp = String::new();
    let mut canary = false;
    let mut anchors_path = String::new();
    let mut shifts: BTreeMap<String, i64> = BTreeMap::new();
    let mut record_path = String::new();
    let mut i = 3;
    while i < args.len() {
        match args[i].as_str() {
            "--repo" => { repo = args[i + 1].clone(); i += 2; }
            "--out" => { outp = args[i + 1].clone(); i += 2; }
            "--map" => { mapp = args[i + 1].clone(); i += 2; }
            "--canary" => { canary = true; i += 1; }
            "--anchors" => { anchors_path = args[i + 1].clone(); i += 2; }
            "--shift" => {
                // KEY=DELTA
                let a = args[i + 1].clone();
                if let Some(p) = a.rfind('=') {
                    if let Ok(d) = a[p + 1..].parse::<i64>() {
                        shifts.insert(a[..p].to_string(), d);
                    }
                }
                i += 2;
            }
            "--record-anchors" => { record_path = args[i + 1].clone(); i += 2; }
            x => undecided(&format!("unknown argument {x}")),
        }
    }
    let mut unit = Unit { name: String::new(), properties: vec![], meta: BTreeMap::new(), chunks: vec![] };
    parse_unit(&args[2], &mut unit);
    let mut recorded: BTreeMap<String, (String, usize, usize, usize, usize)> = BTreeMap::new();
    if !anchors_path.is_empty() {
        if let Ok(t) = std::fs::read_to_string(&anchors_path) {
            if let Ok(serde_json::Value::Object(m)) = serde_json::from_str::<serde_json::Value>(&t) {
                for (k, v) in m {
                    if let (Some(fp), Some(c)) = (v.get(0).and_then(|x| x.as_str()), v.get(1).and_then(|x| x.as_u64())) {
                        let rank = v.get(2).and_then(|x| x.as_u64()).unwrap_or(0) as usize;
                        let nsame = v.get(3).and_then(|x| x.as_u64()).unwrap_or(1) as usize;
                        let ord = v.get(4).and_then(|x| x.as_u64()).map(|x| x as usize);
                        let Some(ord) = ord else { continue };
                        recorded.insert(k, (fp.to_string(), c as usize, rank, nsame, ord));
                    }
                }
            }
        }
    }
    let mut observed_all: BTreeMap<String, (String, usize, usize, usize, usize)> = BTreeMap::new();
    let mut hint_keys_all: Vec<serde_json::Value> = vec![];
    let mut pieces: Vec<Piece> = vec![];
    let mut rule_log: Vec<serde_json::Value> = vec![];
    let mut pending_wrapper_rename: Option<(Vec<(String, String)>, usize)> = None;
    let mut items_log: Vec<serde_json::Value> = vec![];
    let mut sources: BTreeMap<String, (String, &'static syn::File)> = BTreeMap::new();
    for ch in &unit.chunks {
        match ch {
            Chunk::Raw { file, line0, text } => {
                let mut text = text.clone();
                if let Some((map, indent)) = pending_wrapper_rename.take() {
                    // the rest of the hand-written wrapper of a sub-region whose locals were renamed: up to its closing brace
                    let mut end = 0;
                    let mut closed = false;
                    for line in text.split_inclusive('\n') {
                        end += line.len();
                        let t = line.trim_start();
                        if t.starts_with('}') && line.len() - t.len() == indent {
                            closed = true;
                            break;
                        }
                    }
                    if !closed { end = 0; }
                    let head = rename_idents(&text[..end], &map);
                    text = format!("{}{}", head, &text[end..]);
                }
                pieces.push(Piece { text, origin: Origin::Unit { file: file.clone(), line: *line0 }, func: String::new(), section: "raw".into(), pos: 0 });
            }
            Chunk::Extract(ex) => {
                let full = format!("{}/{}", repo, ex.file);
                if !sources.contains_key(&ex.file) {
                    let s = std::fs::read_to_string(&full).unwrap_or_else(|e| undecided(&format!("cannot read {full}: {e}")));
                    let f = syn::parse_file(&s).unwrap_or_else(|e| undecided(&format!("cannot parse {full}: {e}")));
                    sources.insert(ex.file.clone(), (s, Box::leak(Box::new(f))));
                }
                let (src, file) = sources.get(&ex.file).map(|(s, f)| (s.clone(), *f)).unwrap();
                let src: &'static str = Box::leak(src.into_boxed_str());
                let ctx = format!("{}:{} `{}`", args[2], ex.line, ex.path.join(" / "));
                let mut sub: Option<String> = None;
                let mut path = ex.path.clone();
                if let Some(last) = path.last() {
                    if last.starts_with("stmts ") || last.starts_with("block ") || last.starts_with("expr ") {
                        sub = path.pop();
                    }
                }
                let found = find_in_items(src, &file.items, &path, &ctx);
                let mut g = Gen { repo_file: ex.file.clone(), src, edits: vec![], seq: 0, log: vec![], rules: ex.rules.clone(), ctx: ctx.clone(), canary,
                    recorded: &recorded, observed: BTreeMap::new(), key_prefix: format!("{}|{}", ex.file, ex.path.join(" / ")), key_seen: BTreeMap::new(),
                    allow_gone: false, gone: false, shifts: &shifts, hint_seen: BTreeMap::new(), hint_keys: vec![], renames: vec![], in_sub: false };
                let spec_for = |name: &str| ex.fns.iter().find(|f| f.name == name || f.name.is_empty());
                let (region, func_label): (Range<usize>, String);
                let mut prefix = String::new();
                let mut suffix = String::new();
                match found {
                    Found::ImplFn(_, f) if sub.is_some() => {
                        func_label = f.sig.ident.to_string();
                        region = g.do_fn_sub(&f.attrs, Some(&f.vis), &f.sig, Some(&f.block), spec_for(&func_label), false, sub.as_deref()).unwrap();
                    }
                    Found::Item(syn::Item::Fn(f)) if sub.is_some() => {
                        func_label = f.sig.ident.to_string();
                        region = g.do_fn_sub(&f.attrs, Some(&f.vis), &f.sig, Some(&f.block), spec_for(&func_label), false, sub.as_deref()).unwrap();
                    }
                    Found::ImplFn(im, f) => {
                        let whole = br(f.span());
                        let start = region_start(&f.attrs, whole.clone());
                        region = start..whole.end;
                        func_label = f.sig.ident.to_string();
                        let hdr = match &ex.header {
                            Some(h) => { g.log.push(json!({"rule": "header-override", "file": ex.file, "line": g.line_of(br(im.span()).start), "old": src[br(im.impl_token.span()).start..br(im.brace_token.span.open()).start].to_string(), "note": h.text.trim()})); h.text.trim().to_string() }
                            None => src[br(im.impl_token.span()).start..br(im.brace_token.span.open()).start].trim().to_string(),
                        };
                        prefix = format!("{hdr} {{\n");
                        suffix = "\n}\n".into();
                        g.do_fn(&f.attrs, Some(&f.vis), &f.sig, Some(&f.block), spec_for(&func_label), im.trait_.is_some());
                    }
                    Found::TraitFn(_tr, f) => {
                        let whole = br(f.span());
                        let start = region_start(&f.attrs, whole.clone());
                        region = start..whole.end;
                        func_label = f.sig.ident.to_string();
                        g.do_fn(&f.attrs, None, &f.sig, f.default.as_ref(), spec_for(&func_label), true);
                    }
                    Found::Item(it) => {
                        let whole = br(it.span());
                        match it {
                            syn::Item::Fn(f) => {
                                region = region_start(&f.attrs, whole.clone())..whole.end;
                                func_label = f.sig.ident.to_string();
                                g.do_fn(&f.attrs, Some(&f.vis), &f.sig, Some(&f.block), spec_for(&func_label), false);
                            }
                            syn::Item::Struct(s) => {
                                region = region_start(&s.attrs, whole.clone())..whole.end;
                                func_label = format!("struct {}", s.ident);
                                g.strip_attrs(&s.attrs);
                                g.make_pub(&s.vis, br(s.struct_token.span()).start);
                                g.fields(&s.fields);
                            }
                            syn::Item::Enum(s) => {
                                region = region_start(&s.attrs, whole.clone())..whole.end;
                                func_label = format!("enum {}", s.ident);
                                g.strip_attrs(&s.attrs);
                                g.make_pub(&s.vis, br(s.enum_token.span()).start);
                                for v in &s.variants {
                                    g.strip_attrs(&v.attrs);
                                    for f in v.fields.iter() { g.strip_attrs(&f.attrs); }
                                }
                            }
                            syn::Item::Const(s) => {
                                region = region_start(&s.attrs, whole.clone())..whole.end;
                                func_label = format!("const {}", s.ident);
                                g.strip_attrs(&s.attrs);
                                g.make_pub(&s.vis, br(s.const_token.span()).start);
                                if g.rules.contains("R13") {
                                    let blk: syn::Block = syn::Block { brace_token: Default::default(), stmts: vec![] };
                                    let scan = Scan { nodes: vec![], stmts: vec![], fn_block: 0..0, blocks: vec![], block_info: vec![] };
                                    let spec = FnSpec::default();
                                    let _ = &blk;
                                    g.const_rules(&s.expr, &scan, &spec);
                                }
                            }
                            syn::Item::Static(s) => {
                                region = region_start(&s.attrs, whole.clone())..whole.end;
                                func_label = format!("static {}", s.ident);
                                g.strip_attrs(&s.attrs);
                            }
                            syn::Item::Type(s) => {
                                region = region_start(&s.attrs, whole.clone())..whole.end;
                                func_label = format!("type {}", s.ident);
                                g.strip_attrs(&s.attrs);
                                g.make_pub(&s.vis, br(s.type_token.span()).start);
                            }
                            syn::Item::Impl(im) => {
                                region = region_start(&im.attrs, whole.clone())..whole.end;
                                func_label = String::new();
                                g.strip_attrs(&im.attrs);
                                if let Some(h) = &ex.header {
                                    let r = br(im.impl_token.span()).start..br(im.brace_token.span.open()).start;
                                    g.rule_log("header-override", &r, h.text.trim());
                                    let o = Origin::Unit { file: h.file.clone(), line: h.line0 };
                                    g.rep(r, format!("{} ", h.text.trim()), o, "header");
                                }
                                if let Some(m) = &ex.members {
                                    let o = Origin::Unit { file: m.file.clone(), line: m.line0 };
                                    g.ins(br(im.brace_token.span.open()).end, format!("\n{}", m.text), o, "members");
                                }
                                for ii in &im.items {
                                    let (name, r, attrs): (String, Range<usize>, &[syn::Attribute]) = match ii {
                                        syn::ImplItem::Fn(f) => (f.sig.ident.to_string(), br(f.span()), &f.attrs),
                                        syn::ImplItem::Type(t) => (t.ident.to_string(), br(t.span()), &t.attrs),
                                        syn::ImplItem::Const(t) => (t.ident.to_string(), br(t.span()), &t.attrs),
                                        other => (String::new(), br(other.span()), &[]),
                                    };
                                    let r = region_start(attrs, r.clone())..r.end;
                                    if let Some(keep) = &ex.keep {
                                        if !keep.contains(&name) {
                                            g.rule_log("keep", &r, "member not extracted");
                                            let o = g.gen("keep");
                                            g.rep(r, String::new(), o, "rewrite");
                                            continue;
                                        }
                                    }
                                    match ii {
                                        syn::ImplItem::Fn(f) => {
                                            let sp = ex.fns.iter().find(|s| s.name == name);
                                            g.do_fn(&f.attrs, Some(&f.vis), &f.sig, Some(&f.block), sp, im.trait_.is_some());
                                        }
                                        syn::ImplItem::Type(t) => g.strip_attrs(&t.attrs),
                                        syn::ImplItem::Const(t) => g.strip_attrs(&t.attrs),
                                        _ => {}
                                    }
                                }
                                for s in &ex.fns {
                                    if !s.name.is_empty() && !im.items.iter().any(|ii| matches!(ii, syn::ImplItem::Fn(f) if f.sig.ident == s.name)) {
                                        if s.optional {
                                            g.log.push(json!({"rule": "optional-member-absent", "file": ex.file, "line": g.line_of(br(im.span()).start), "old": s.name, "note": "member absent: its directives are skipped, the trait default (if any) applies and is judged by the contracts around it"}));
                                            continue;
                                        }
                                        undecided(&format!("{ctx}: lost member fn {}", s.name));
                                    }
                                }
                            }
                            syn::Item::Trait(tr) => {
                                region = region_start(&tr.attrs, whole.clone())..whole.end;
                                func_label = String::new();
                                g.strip_attrs(&tr.attrs);
                                g.make_pub(&tr.vis, br(tr.trait_token.span()).start);
                                if let Some(m) = &ex.members {
                                    let o = Origin::Unit { file: m.file.clone(), line: m.line0 };
                                    g.ins(br(tr.brace_token.span.open()).end, format!("\n{}", m.text), o, "members");
                                }
                                if let Some(h) = &ex.header {
                                    let r = br(tr.trait_token.span()).start..br(tr.brace_token.span.open()).start;
                                    g.rule_log("header-override", &r, h.text.trim());
                                    let o = Origin::Unit { file: h.file.clone(), line: h.line0 };
                                    g.rep(r, format!("{} ", h.text.trim()), o, "header");
                                }
                                for ii in &tr.items {
                                    let (name, r, attrs): (String, Range<usize>, &[syn::Attribute]) = match ii {
                                        syn::TraitItem::Fn(f) => (f.sig.ident.to_string(), br(f.span()), &f.attrs),
                                        syn::TraitItem::Type(t) => (t.ident.to_string(), br(t.span()), &t.attrs),
                                        syn::TraitItem::Const(t) => (t.ident.to_string(), br(t.span()), &t.attrs),
                                        other => (String::new(), br(other.span()), &[]),
                                    };
                                    let r = region_start(attrs, r.clone())..r.end;
                                    if let Some(keep) = &ex.keep {
                                        if !keep.contains(&name) {
                                            g.rule_log("keep", &r, "member not extracted");
                                            let o = g.gen("keep");
                                            g.rep(r, String::new(), o, "rewrite");
                                            continue;
                                        }
                                    }
                                    if let syn::TraitItem::Fn(f) = ii {
                                        let sp = ex.fns.iter().find(|s| s.name == name);
                                        g.do_fn(&f.attrs, None, &f.sig, f.default.as_ref(), sp, true);
                                    }
                                }
                            }
                            _ => undecided(&format!("{ctx}: unsupported item kind")),
                        }
                    }
                }
                if sub.is_some() && !g.renames.is_empty() {
                    // sub-region: the enclosing wrapper function is hand-written raw text that names the real function's
                    // locals as its parameters - alpha-rename it too (only if the new names are unused there)
                    let map = g.renames.clone();
                    if let Some(p) = pieces.iter_mut().rev().find(|p| p.section == "raw") {
                        if let Some(at) = last_fn_start(&p.text) {
                            let tail = p.text[at..].to_string();
                            if map.iter().all(|(_, n)| !has_ident(&tail, n)) {
                                let first = tail.lines().next().unwrap_or("");
                                let indent = first.len() - first.trim_start().len();
                                p.text = format!("{}{}", &p.text[..at], rename_idents(&tail, &map));
                                pending_wrapper_rename = Some((map, indent));
                            }
                        }
                    }
                }
                let line = src[..region.start].bytes().filter(|b| *b == b'\n').count() + 1;
                let line_end = src[..region.end].bytes().filter(|b| *b == b'\n').count() + 1;
                glue(&mut pieces, &format!("// --- extracted from {} lines {}..{} (bytes {}..{}) ---\n", ex.file, line, line_end, region.start, region.end), "marker");
                if !prefix.is_empty() { glue(&mut pieces, &prefix, "impl-header"); }
                let edits = std::mem::take(&mut g.edits);
                // per-member function labels: pieces inherit the label of the member containing them
                let before = pieces.len();
                apply(src, region.clone(), edits, &ex.file, &func_label, &mut pieces, &ctx);
                if func_label.is_empty() {
                    // whole impl/trait: label pieces by the member that contains their origin byte
                    let members: Vec<(Range<usize>, String)> = match found_members(src, &file.items, &ex.path, &ctx) { m => m };
                    for p in pieces[before..].iter_mut() {
                        // a piece belongs to the member whose source range contains it (inclusive end: text
                        // spliced right after the signature or at the end of the body)
                        if let Some((_, n)) = members.iter().find(|(r, _)| r.start <= p.pos && p.pos <= r.end) {
                            p.func = n.clone();
                        }
                    }
                }
                if !suffix.is_empty() { glue(&mut pieces, &suffix, "impl-close"); }
                glue(&mut pieces, "\n", "marker");
                items_log.push(json!({"file": ex.file, "path": ex.path.join(" / "), "lines": [line, line_end], "bytes": [region.start, region.end], "rules": ex.rules, "unit_line": ex.line}));
                observed_all.extend(std::mem::take(&mut g.observed));
                hint_keys_all.extend(std::mem::take(&mut g.hint_keys).into_iter().map(|k| json!({"key": k, "fn": ""})));
                rule_log.extend(g.log);
            }
        }
    }
    // assemble
    let mut text = String::new();
    let mut map = vec![];
    for p in &pieces {
        let start = text.len();
        text.push_str(&p.text);
        let o = match &p.origin {
            Origin::Unit { file, line } => json!({"k": "unit", "file": file, "line": line}),
            Origin::Repo { file, byte, line } => json!({"k": "repo", "file": file, "byte": byte, "line": line}),
            Origin::Gen { what } => json!({"k": "gen", "what": what}),
        };
        map.push(json!({"s": start, "e": text.len(), "o": o, "fn": p.func, "sec": p.section}));
    }
    std::fs::write(&outp, &text).unwrap_or_else(|e| undecided(&format!("cannot write {outp}: {e}")));
    if !record_path.is_empty() {
        let m: serde_json::Map<String, serde_json::Value> = observed_all.iter().map(|(k, (fp, c, r, n, o))| (k.clone(), json!([fp, c, r, n, o]))).collect();
        std::fs::write(&record_path, serde_json::to_string_pretty(&serde_json::Value::Object(m)).unwrap()).unwrap_or_else(|e| undecided(&format!("cannot write {record_path}: {e}")));
    }
    let m = json!({"unit": unit.name, "properties": unit.properties, "meta": unit.meta, "pieces": map, "rewrites": rule_log, "items": items_log, "hints": hint_keys_all});
    std::fs::write(&mapp, serde_json::to_string(&m).unwrap()).unwrap_or_else(|e| undecided(&format!("cannot write {mapp}: {e}")));
}

fn found_members(src: &str, items: &[syn::Item], path: &[String], ctx: &str) -> Vec<(Range<usize>, String)> {
    match find_in_items(src, items, path, ctx) {
        Found::Item(syn::Item::Impl(im)) => im.items.iter().filter_map(|ii| if let syn::ImplItem::Fn(f) = ii { Some((br(f.span()), f.sig.ident.to_string())) } else { None }).collect(),
        Found::Item(syn::Item::Trait(tr)) => tr.items.iter().filter_map(|ii| if let syn::TraitItem::Fn(f) = ii { Some((br(f.span()), f.sig.ident.to_string())) } else { None }).collect(),
        _ => vec![],
    }
}
