#!/usr/bin/env python3
"""Prepare a seeding round: one scratch worktree of /repo per property under <base> (outside /repo and /verif) and a
PROMPT.txt for a fresh sub-agent that contains ONLY the property text, the rules of the exercise and the places earlier
rounds already used (file + function names). usage: mkseedround.py <base e.g. /tmp/seed4> Cxx [Cxx ...]"""
import glob, json, os, re, subprocess, sys
base, ids = sys.argv[1], sys.argv[2:]
t = open("/verif/tools/seed_prompt.md").read().replace("/tmp/seed/", base.rstrip("/") + "/")
props = {json.loads(l)["id"]: json.loads(l) for l in open("/verif/properties.jsonl")}
prev = {}
for d in sorted(glob.glob("/verif/seeded/C*-*")):
    c = os.path.basename(d).split("-")[0]
    m = json.load(open(d + "/meta.json"))
    fn = re.findall(r"^@@.*@@\s*(.*)$", open(d + "/patch.diff").read(), re.M)
    prev.setdefault(c, []).append("- %s (%s)" % ("; ".join(m.get("files") or []), "; ".join(x.strip() for x in fn[:2])))
os.makedirs(base, exist_ok=True)
for c in ids:
    p = props[c]
    subprocess.run(["git", "worktree", "add", "-q", "--detach", "%s/%s" % (base, c), "HEAD"], cwd="/repo", check=True)
    os.makedirs("%s/%s-out" % (base, c), exist_ok=True)
    prop = "%s: %s\n\n%s\n\nQuantifier: %s\n" % (p["id"], p["title"], p["statement"], p["quantifier"]["text"])
    extra = ("\nEarlier rounds already produced changes at these places - produce two NEW ones in DIFFERENT functions / mechanisms "
             "(other files of the same feature are welcome; look at the whole statement of the property, including its later "
             "sentences and the less obvious clauses):\n" + "\n".join(prev.get(c, [])) + "\n")
    if os.environ.get("SEED_WITH_ANCHORS") == "1":
        # the property record's own anchors (part of the given property): where it is implemented
        mech = "\n".join("  - %s: %s" % (m["name"], m["where"]) for m in p["anchors"]["mechanism"])
        prop += "\nWhere the property is implemented (from the property record; line numbers are approximate):\n" + mech + "\n"
        extra += "\nPrefer changes INSIDE the mechanisms listed above (one patch per mechanism, not used by an earlier round), in the real logic of those functions.\n"
    open("%s/%s-out/property.txt" % (base, c), "w").write(prop)
    open("%s/%s-out/PROMPT.txt" % (base, c), "w").write(t.replace("@ID@", c).replace("@PROPERTY@", prop + extra))
print("prepared", ids, "under", base)
