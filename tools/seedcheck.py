#!/usr/bin/env python3
"""Run property checks against a stored seeded change: creates a scratch worktree of /repo under /tmp/sw, applies
/verif/seeded/<seed>/patch.diff, runs ./check for the property (or the given ones) with VERIF_REPO, removes the worktree.
usage: seedcheck.py <seed-id e.g. C16-2> [Cxx ...]    Prints one line per check; records result in seeded/<seed>/detect.json"""
import json, os, subprocess, sys
def clean_alt(wt):
    """remove the per-scratch-tree Kani / replay build directories of the driver (named by md5 of the tree's path)"""
    import glob, hashlib, shutil
    h = hashlib.md5(wt.encode()).hexdigest()[:8]
    for d in glob.glob("/verif/.build/kani/*-" + h) + glob.glob("/verif/.build/kani-alt/*-" + h) + glob.glob("/verif/.build/replay-" + h):
        shutil.rmtree(d, ignore_errors=True)


seed = sys.argv[1]
props = sys.argv[2:] or [seed.split("-")[0]]
wt = "/tmp/sw/%s" % seed
os.makedirs("/tmp/sw", exist_ok=True)
subprocess.run(["git", "-C", "/repo", "worktree", "remove", "--force", wt], stdout=subprocess.DEVNULL, stderr=subprocess.DEVNULL)
subprocess.run(["git", "-C", "/repo", "worktree", "add", "-q", wt, "HEAD"], check=True)
try:
    a = subprocess.run(["git", "apply", "/verif/seeded/%s/patch.diff" % seed], cwd=wt)
    if a.returncode != 0:
        # context moved by a later fix: commit - fall back to patch(1) with fuzz
        a = subprocess.run("patch -p1 -s --no-backup-if-mismatch < /verif/seeded/%s/patch.diff" % seed, shell=True, cwd=wt)
    if a.returncode != 0:
        print(seed, "PATCH DOES NOT APPLY")
        sys.exit(2)
    res = {}
    for p in props:
        r = subprocess.run(["./check", p], cwd="/verif", env=dict(os.environ, VERIF_REPO=wt), stdout=subprocess.PIPE, stderr=subprocess.PIPE, text=True)
        failed = [l.strip()[len("failed obligation "):] for l in r.stderr.split("\n") if "failed obligation" in l]
        und = [l.strip() for l in r.stderr.split("\n") if l.startswith("UNDECIDED")]
        res[p] = {"exit": r.returncode, "violation_lines": [l for l in r.stdout.split("\n") if l.startswith("VIOLATION")], "failed_obligations": failed[:8], "undecided": und[:4]}
        vl = res[p]["violation_lines"]
        verdict = {0: "MISSED", 2: "UNDECIDED"}.get(r.returncode, "DETECTED" if (r.returncode == 1 and vl) else "DRIVER-ERROR")
        res[p]["verdict"] = verdict
        print(seed, p, "exit", r.returncode, verdict, (failed + und + [""])[0][:200], flush=True)
    json.dump(res, open("/verif/seeded/%s/detect.json" % seed, "w"), indent=1)
finally:
    subprocess.run(["git", "-C", "/repo", "worktree", "remove", "--force", wt])
    clean_alt(wt)
