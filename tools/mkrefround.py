#!/usr/bin/env python3
"""Prepare a behaviour-preserving-refactoring round for a fresh sub-agent: a scratch worktree of /repo under <base>/<group>
and <base>/<group>-out/PROMPT.txt listing ONLY functions (file + item path) that the named units extract - nothing else
from /verif. usage: mkrefround.py <base e.g. /tmp/ref3> <group> <n patches> <unit> [<unit> ...]"""
import json, os, re, subprocess, sys
base, group, n, units = sys.argv[1], sys.argv[2], int(sys.argv[3]), sys.argv[4:]
funcs = []
for u in units:
    out = "/verif/.build/v/_ref_%s" % u
    r = subprocess.run(["/verif/.build/vx/release/vx", "gen", "/verif/specs/%s.vx" % u, "--repo", "/repo", "--out", out + ".rs", "--map", out + ".json",
                        "--anchors", "/verif/specs/.anchors/%s.json" % u], stdout=subprocess.PIPE, stderr=subprocess.PIPE, text=True)
    if r.returncode != 0:
        print("vx failed for", u, r.stderr[:200]); continue
    m = json.load(open(out + ".json"))
    for it in m["items"]:
        last = it["path"].split(" / ")[-1]
        if last.startswith(("struct ", "enum ", "const ", "static ", "type ")):
            continue
        path = " / ".join(s for s in it["path"].split(" / ") if not s.startswith(("stmts ", "block ", "expr ")))
        funcs.append("%s %s" % (it["file"], path))
    os.remove(out + ".rs"); os.remove(out + ".json")
funcs = sorted(set(funcs))
wt, outd = "%s/%s" % (base, group), "%s/%s-out" % (base, group)
os.makedirs(outd, exist_ok=True)
subprocess.run(["git", "worktree", "add", "-q", "--detach", wt, "HEAD"], cwd="/repo", check=True)
names = " ... ".join(["`refactor1.diff`", "`refactor%d.diff`" % n])
t = """You are a maintainer doing BEHAVIOUR-PRESERVING refactoring of a Rust project (emit-rs/emit). You work ONLY inside the git
worktree `%(wt)s` and write deliverables to `%(out)s/`. Do NOT read anything under `/verif`, `/root/.vp`, `/root/.claude`
or other `%(base)s/*` directories. Do not touch `/repo`. No network (use `--offline`, `CARGO_TARGET_DIR=%(wt)s-target`).

Task: produce %(n)d independent patches (%(names)s, each `git diff` against the unchanged tree, each applying
cleanly on its own), each a small, realistic refactoring of ONE or two of the functions listed below that does NOT change observable
behaviour in any way (same results, same side effects in the same order, same panics - none). Spread the patches over different
functions and use a DIFFERENT kind of refactoring for neighbouring patches, chosen from: rename a local variable or a parameter;
introduce an intermediate `let` binding / inline one; reorder two statements that are independent of each other; rewrite
`if let .. else` as `match` (or the reverse); bind the iterated expression of a `for` to a local first; add a harmless extra statement
(`let _unused = ...;`); replace `x = x + 1` by `x += 1` style rewrites; add an explicit type annotation; wrap a tail expression in
`return`; split a compound boolean condition into two nested `if`s; swap the operands of a commutative operator or flip a comparison
(`a < b` -> `b > a`); rewrite a builder chain with an intermediate variable; replace `.is_some()` + unwrap by `if let`. Keep each patch
under ~20 changed lines. Do NOT extract new helper functions and do not turn `while` into `loop`.
Each patch must compile and the tests of the crate it touches must still pass (`cargo test -p <crate> --offline`).

Functions of interest:
%(funcs)s

Deliverables in `%(out)s/`: refactor1.diff .. refactor%(n)d.diff and `meta.json` = a list of
{"patch": "refactorN.diff", "function": "...", "kind": "<kind of refactoring>", "tests_pass": true}.
Leave the worktree clean (`git checkout -- . && git clean -fd`) and delete `%(wt)s-target`. Final message: 8 lines.
""" % {"wt": wt, "out": outd, "base": base, "n": n, "names": names, "funcs": "\n".join("  - " + f for f in funcs)}
open(outd + "/PROMPT.txt", "w").write(t)
print(group, len(funcs), "functions;", outd + "/PROMPT.txt")
