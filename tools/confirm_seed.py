#!/usr/bin/env python3
"""Confirm a seeded change independently: run the commands of its RUN.md (demo with the patch must FAIL, without
must PASS) and the whole suite with the patch applied (must PASS). usage: confirm_seed.py Cxx N"""
import os, re, subprocess, sys, json
cid, n = sys.argv[1], sys.argv[2]
BASE = os.environ.get("SEED_BASE", "/tmp/seed")
wt = "%s/%s" % (BASE, cid)
out = "%s/%s-out" % (BASE, cid)
run = open("%s/demo%s/RUN.md" % (out, n)).read()
run = re.sub(r"\\\n\s*", " ", run)  # shell line continuations
install, demo = [], None
for ln in run.split("\n"):
    c = re.sub(r"\s+#.*$", "", ln.strip())
    if re.match(r"(mkdir|cp) ", c) or (re.match(r"(printf|echo) ", c) and ">>" in c):
        if c.startswith("cp "):
            # a relative source is relative to the demo directory (where RUN.md lives)
            parts = c.split()
            for i in range(1, len(parts) - 1):
                if not parts[i].startswith(("/", "-", "$")) and os.path.exists(os.path.join(out, "demo%s" % n, parts[i])):
                    parts[i] = os.path.join(out, "demo%s" % n, parts[i])
            c = " ".join(parts)
            # make sure the destination directory exists ("create tests/ if missing")
            dest = parts[-1]
            ddir = dest if dest.endswith("/") else os.path.dirname(dest)
            if ddir:
                install.append("mkdir -p %s" % ddir)
        install.append(c)
    elif re.search(r"(^|\s)cargo (test|run) ", c) and "--workspace" not in c and demo is None:
        demo = c[c.index("cargo "):]
env = dict(os.environ, CARGO_TARGET_DIR="%s/%s-target" % (BASE, cid), CARGO_NET_OFFLINE="true", RUST_BACKTRACE="0", W=wt, WT=wt, OUT=out)
clean = "git checkout -q -- . && git clean -qfd"
subprocess.run(clean, shell=True, cwd=wt)
res = []


def run_demo(label):
    for c in install:
        subprocess.run(c, shell=True, cwd=wt, env=env)
    r = subprocess.run(demo, shell=True, cwd=wt, env=env, stdout=subprocess.PIPE, stderr=subprocess.STDOUT, text=True)
    tr = re.findall(r"test result: (\w+)\. (\d+) passed; (\d+) failed", r.stdout)
    res.append({"when": label, "cmd": demo, "exit": r.returncode, "results": tr[-3:], "tail": r.stdout[-300:] if not tr else ""})


run_demo("without")
a = subprocess.run("git apply %s/patch%s.diff" % (out, n), shell=True, cwd=wt)
run_demo("with")
subprocess.run(clean, shell=True, cwd=wt)
tests = [res[1], res[0]]
# suite with the patch
a = subprocess.run("git apply %s/patch%s.diff" % (out, n), shell=True, cwd=wt)
s = subprocess.run("cargo test --workspace --no-fail-fast --offline", shell=True, cwd=wt, env=env, stdout=subprocess.PIPE, stderr=subprocess.STDOUT, text=True)
suite_ok = s.returncode == 0
n_ok = len(re.findall(r"test result: ok", s.stdout))
n_bad = len(re.findall(r"test result: FAILED", s.stdout))
subprocess.run("git checkout -q -- . && git clean -qfd", shell=True, cwd=wt)
verdict = {"seed": "%s/patch%s" % (cid, n), "demo_runs": tests, "suite_exit": s.returncode, "suite_ok_binaries": n_ok, "suite_failed_binaries": n_bad,
           "confirmed": bool(len(tests) >= 2 and tests[0]["exit"] != 0 and tests[-1]["exit"] == 0 and suite_ok and a.returncode == 0)}
print(json.dumps(verdict))
json.dump(verdict, open("%s/confirm%s.json" % (out, n), "w"), indent=1)
