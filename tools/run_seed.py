#!/usr/bin/env python3
"""Run the property check against a seeded change applied in its scratch worktree. usage: run_seed.py Cxx N [props...]"""
import os, re, subprocess, sys, json
cid, n = sys.argv[1], sys.argv[2]
props = sys.argv[3:] or [cid]
BASE = os.environ.get("SEED_BASE", "/tmp/seed")
wt = "%s/%s" % (BASE, cid)
out = "%s/%s-out" % (BASE, cid)
clean = "git checkout -q -- . && git clean -qfd"
subprocess.run(clean, shell=True, cwd=wt)
# the seed was written against the head of /repo at that time; the checks describe the CURRENT head (later fix: commits)
head = subprocess.run("git -C /repo rev-parse HEAD", shell=True, stdout=subprocess.PIPE, text=True).stdout.strip()
subprocess.run("git checkout -q --detach %s" % head, shell=True, cwd=wt)
a = subprocess.run("git apply %s/patch%s.diff" % (out, n), shell=True, cwd=wt)
if a.returncode != 0:
    a = subprocess.run("patch -p1 -s --no-backup-if-mismatch < %s/patch%s.diff" % (out, n), shell=True, cwd=wt)
    if a.returncode != 0:
        print(json.dumps({"seed": "%s/patch%s" % (cid, n), "checks": {p: {"exit": 2, "violations": [], "failed": [], "undecided": ["UNDECIDED seed patch does not apply to the current head of /repo"]} for p in props}}))
        sys.exit(0)
res = {}
for p in props:
    env = dict(os.environ, VERIF_REPO=wt)
    r = subprocess.run(["./check", p], cwd="/verif", env=env, stdout=subprocess.PIPE, stderr=subprocess.PIPE, text=True)
    res[p] = {"exit": r.returncode, "violations": [l for l in r.stdout.split("\n") if l.startswith("VIOLATION")],
              "failed": [l.strip()[:300] for l in r.stderr.split("\n") if "failed obligation" in l][:6],
              "undecided": [l.strip()[:300] for l in r.stderr.split("\n") if l.startswith("UNDECIDED")][:4]}
subprocess.run(clean, shell=True, cwd=wt)
print(json.dumps({"seed": "%s/patch%s" % (cid, n), "checks": res}, indent=1))
json.dump(res, open("%s/detect%s.json" % (out, n), "w"), indent=1)
