#!/usr/bin/env python3
"""Regenerates the per-property status table of DESIGN.md (between the STATUS markers) from evidence/*.json."""
import glob, json, os
V = os.path.dirname(os.path.dirname(os.path.abspath(__file__)))
rows = []
for f in sorted(glob.glob(os.path.join(V, "evidence", "C*.json"))):
    e = json.load(open(f))
    c = e["coverage"]
    units = ", ".join("%s (%d)" % (u["unit"], u["functions_verified"]) for u in c.get("units", [])) or "-"
    kani = c.get("kani", [])
    kc = [k["harness"] for k in kani if k["kind"] == "complete"]
    kb = [k["harness"] for k in kani if k["kind"] == "bounded"]
    ks = ("%d complete" % len(kc) if kc else "") + ((", " if kc and kb else "") + "%d bounded (%s)" % (len(kb), ", ".join(kb)) if kb else "")
    rows.append("| %s | %s | %s | %d / %d | %.0f s |" % (e["property_id"], units, ks or "-", c["discharged"], c["obligations"], e["wall_s"]))
table = "| id | Verus units (functions verified) | Kani harnesses | obligations discharged | %s wall |\n|---|---|---|---|---|\n" % "quick" + "\n".join(rows)
p = os.path.join(V, "DESIGN.md")
s = open(p).read()
a, b = "<!-- STATUS:BEGIN -->", "<!-- STATUS:END -->"
if a in s:
    s = s[:s.index(a) + len(a)] + "\n" + table + "\n" + s[s.index(b):]
    open(p, "w").write(s)
print(len(rows), "properties")
