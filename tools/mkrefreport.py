#!/usr/bin/env python3
"""Fills the REFCHECK block of DESIGN.md 13.7 from refactors/last_run.json (written by tools/refcheck.py) and index.json."""
import collections, json, os, re
V = os.path.dirname(os.path.dirname(os.path.abspath(__file__)))
run = json.load(open(V + "/refactors/last_run.json"))
idx = {i["patch"]: i for i in json.load(open(V + "/refactors/index.json"))}
rows, tot = [], collections.Counter()
cls = collections.Counter()
for name in sorted(run):
    v = {c: rc for c, rc in run[name].items() if not c.startswith("_")}
    verdict = "FALSE ALARM" if 1 in v.values() else ("undecided" if 2 in v.values() else "ok")
    tot[verdict] += 1
    if verdict != "ok":
        why = run[name].get("_why", {})
        first = next(iter(why.values()), [""])
        msg = (first + [""])[0]
        msg = re.sub(r"^UNDECIDED property=C\d+ ", "", msg)
        k = ("extracted helper (function without contract)" if re.search(r"cannot find function|no method named", msg) else
             "`while` rewritten as `loop` (no place for the invariant)" if "nodes of that kind now" in msg and "while" in msg else
             "construct outside Verus' subset / type mismatch with a mirror" if re.search(r"not supported|mismatched types|lifetime argument|expected", msg) else
             "renamed identifier the follower does not cover (field/shorthand or shared spec text)" if re.search(r"cannot find value|no field named", msg) else "other")
        cls[k] += 1
        rows.append("| %s | %s | %s | %s |" % (name, (idx.get(name, {}).get("kind") or "")[:60], verdict, msg[:150].replace("|", "/")))
txt = ("Last full run of `tools/refcheck.py` over the %d stored patches (Verus units + rewrite-premise lints; the Kani harnesses do not depend on "
       "proof text and were run with `--kani` on the first 54 only): **%d ok, %d undecided (exit 2), %d false alarms (exit 1)**.\n\n"
       "Undecided by cause: %s.\n\n| patch | kind | verdict | first message |\n|---|---|---|---|\n%s\n") % (
    len(run), tot["ok"], tot["undecided"], tot["FALSE ALARM"], "; ".join("%s: %d" % kv for kv in cls.most_common()), "\n".join(rows))
p = V + "/DESIGN.md"
s = open(p).read()
a, b = "<!-- REFCHECK:BEGIN -->", "<!-- REFCHECK:END -->"
s = s[:s.index(a) + len(a)] + "\n" + txt + s[s.index(b):]
open(p, "w").write(s)
print(dict(tot), dict(cls))
