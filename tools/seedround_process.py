#!/usr/bin/env python3
"""Confirm (demo without / with / suite with), run the property check against, and store every seed of a finished
seeding round. usage: seedround_process.py <base e.g. /tmp/seed5> <suffix e.g. r4-> Cxx [Cxx ...]"""
import json, os, shutil, subprocess, sys
base, suffix, ids = sys.argv[1], sys.argv[2], sys.argv[3:]
env = dict(os.environ, SEED_BASE=base, SEED_SUFFIX=suffix)
for c in ids:
    for n in ("1", "2"):
        if not os.path.exists("%s/%s-out/patch%s.diff" % (base, c, n)):
            print(c, n, "no patch"); continue
        r = subprocess.run([sys.executable, "/verif/tools/confirm_seed.py", c, n], env=env, stdout=subprocess.PIPE, stderr=subprocess.STDOUT, text=True)
        try:
            d = json.loads(r.stdout.strip().split("\n")[-1])
        except Exception:
            print(c, n, "confirm failed:", r.stdout[-300:]); continue
        if not d["confirmed"]:
            print("%s/patch%s NOT CONFIRMED suite=%s demo=%s" % (c, n, d["suite_exit"], [(x["when"], x["exit"]) for x in d["demo_runs"]]), flush=True)
            continue
        r = subprocess.run([sys.executable, "/verif/tools/run_seed.py", c, n], env=env, stdout=subprocess.PIPE, stderr=subprocess.STDOUT, text=True)
        try:
            x = json.loads(r.stdout)
            for p, v in x["checks"].items():
                print("%s/patch%s confirmed; %s exit %d %s" % (c, n, p, v["exit"], ((v["failed"] + v["undecided"] + [""])[0])[:200]), flush=True)
        except Exception:
            print(c, n, "run_seed failed:", r.stdout[-300:])
        subprocess.run([sys.executable, "/verif/tools/collect_seed.py", c, n], env=env, stdout=subprocess.DEVNULL)
    # the confirmation builds the whole workspace per property: remove the build output (several GB each)
    shutil.rmtree("%s/%s-target" % (base, c), ignore_errors=True)
