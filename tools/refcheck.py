#!/usr/bin/env python3
"""Re-run the checks against the stored corpus of behaviour-preserving refactorings (/verif/refactors). Any exit 1 is a
FALSE ALARM. usage: refcheck.py [pattern] [--kani] [--retry]   (4 patches in parallel, each in its own scratch worktree under /tmp/rw)"""
import concurrent.futures as cf, glob, json, os, re, subprocess, sys
args = [a for a in sys.argv[1:] if not a.startswith("--")]
pat = args[0] if args else ""
KANI = "--kani" in sys.argv  # also run the Kani harnesses (slow: one Kani build per scratch tree); default: Verus units + lints only
RETRY = "--retry" in sys.argv  # re-run, one at a time, only the (patch, property) pairs that were not 0 in last_run.json
ONLY = {}
if RETRY:
    last = json.load(open("/verif/refactors/last_run.json"))
    ONLY = {k: [c for c, rc in v.items() if not c.startswith("_") and rc != 0] for k, v in last.items()}
    ONLY = {k: v for k, v in ONLY.items() if v}
idx = json.load(open("/verif/refactors/index.json"))
byfile = {}
for f in glob.glob("/verif/evidence/C*.json"):
    e = json.load(open(f))
    for u in e["coverage"].get("units", []):
        for x in u.get("extracted", []):
            byfile.setdefault(x.split(" ")[0], set()).add(e["property_id"])


def clean_alt(wt):
    """remove the per-scratch-tree Kani / replay build directories of the driver (named by md5 of the tree's path)"""
    import glob, hashlib, shutil
    h = hashlib.md5(wt.encode()).hexdigest()[:8]
    for d in glob.glob("/verif/.build/kani/*-" + h) + glob.glob("/verif/.build/kani-alt/*-" + h) + glob.glob("/verif/.build/replay-" + h):
        shutil.rmtree(d, ignore_errors=True)


def one(it):
    name = it["patch"]
    wt = "/tmp/rw/" + name[:-5]
    os.makedirs("/tmp/rw", exist_ok=True)
    subprocess.run(["git", "-C", "/repo", "worktree", "remove", "--force", wt], stdout=subprocess.DEVNULL, stderr=subprocess.DEVNULL)
    subprocess.run(["git", "-C", "/repo", "worktree", "add", "-q", wt, "HEAD"], check=True)
    try:
        p = "/verif/refactors/" + name
        if subprocess.run(["git", "apply", p], cwd=wt).returncode != 0:
            return name, {"applies": False}
        files = re.findall(r"^\+\+\+ b/(.*)$", open(p).read(), re.M)
        props = set(it.get("first_verdicts", {}).keys()) | ({it["property"]} if it.get("property") else set())
        for fl in files:
            props |= byfile.get(fl, set())
        out, why = {}, {}
        if ONLY.get(name):
            props = set(ONLY[name])
        for c in sorted(props):
            x = subprocess.run(["./check", c], cwd="/verif", env=dict(os.environ, VERIF_REPO=wt, VERIF_JOBS="3", VERIF_SKIP_KANI="0" if KANI else "1"), stdout=subprocess.PIPE, stderr=subprocess.PIPE, text=True)
            out[c] = x.returncode
            if x.returncode != 0:
                why[c] = [l.strip()[:300] for l in (x.stderr + x.stdout).split("\n") if l.startswith(("UNDECIDED", "VIOLATION")) or "failed obligation" in l][:6]
        if why:
            out["_why"] = why
        return name, out
    finally:
        subprocess.run(["git", "-C", "/repo", "worktree", "remove", "--force", wt])
        clean_alt(wt)


res = json.load(open("/verif/refactors/last_run.json")) if (RETRY or pat) and os.path.exists("/verif/refactors/last_run.json") else {}
todo = [i for i in idx if pat in i["patch"] and (not RETRY or i["patch"] in ONLY)]
with cf.ThreadPoolExecutor(max_workers=1 if RETRY else 4) as ex:
    for name, out in ex.map(one, todo):
        if RETRY:
            res[name].pop("_why", None)
            res[name].update(out)
        else:
            res[name] = out
        print(name, out, "FALSE-ALARM" if 1 in out.values() else "", flush=True)
json.dump(res, open("/verif/refactors/last_run.json", "w"), indent=1)
vals = [{c: rc for c, rc in v.items() if not c.startswith("_")} for v in res.values()]
print(len(vals), "patches:", sum(1 for v in vals if 1 in v.values()), "false alarms,", sum(1 for v in vals if 2 in v.values() and 1 not in v.values()), "undecided,",
      sum(1 for v in vals if set(v.values()) <= {0}), "ok")
