#!/usr/bin/env python3
"""Store the patches of a refactoring round (made by a fresh sub-agent under <base>/<group>-out) in /verif/refactors and
index them; verdicts come from tools/refcheck.py afterwards. usage: collect_refactors.py <base> <group> <prefix e.g. r3>"""
import glob, json, os, shutil, subprocess, sys
base, group, prefix = sys.argv[1], sys.argv[2], sys.argv[3]
out = "%s/%s-out" % (base, group)
meta = {}
try:
    for m in json.load(open(out + "/meta.json")):
        meta[m["patch"]] = m
except Exception as e:
    print("no meta.json:", e)
idx = json.load(open("/verif/refactors/index.json"))
have = {i["patch"] for i in idx}
wt = "%s/%s" % (base, group)
for p in sorted(glob.glob(out + "/refactor*.diff"), key=lambda x: int("".join(c for c in os.path.basename(x) if c.isdigit()))):
    name = "%s-%s-%s" % (prefix, group, os.path.basename(p))
    ok = subprocess.run(["git", "apply", "--check", p], cwd=wt).returncode == 0
    if not ok:
        print(name, "DOES NOT APPLY - skipped"); continue
    shutil.copy(p, "/verif/refactors/" + name)
    m = meta.get(os.path.basename(p), {})
    if name not in have:
        idx.append({"patch": name, "function": m.get("function", ""), "kind": m.get("kind", ""), "property": m.get("property"), "first_verdicts": {}})
    print(name, "|", m.get("kind", ""))
json.dump(idx, open("/verif/refactors/index.json", "w"), indent=1)
