#!/usr/bin/env python3
"""Copy a confirmed seeded change into /verif/seeded/<Cxx>-<n>/ with its meta (what it needs, what was run, detection)."""
import json, os, shutil, sys
cid, n = sys.argv[1], sys.argv[2]
BASE = os.environ.get("SEED_BASE", "/tmp/seed")
out = "%s/%s-out" % (BASE, cid)
SUF = os.environ.get("SEED_SUFFIX", "")
dst = "/verif/seeded/%s-%s%s" % (cid, SUF, n)
os.makedirs(dst, exist_ok=True)
shutil.copy("%s/patch%s.diff" % (out, n), dst + "/patch.diff")
if os.path.isdir(dst + "/demo"):
    shutil.rmtree(dst + "/demo")
shutil.copytree("%s/demo%s" % (out, n), dst + "/demo")
meta = json.load(open(out + "/meta.json"))
m = next((x for x in meta if x.get("patch") == "patch%s.diff" % n), meta[int(n) - 1])
conf = json.load(open("%s/confirm%s.json" % (out, n)))
det = json.load(open("%s/detect%s.json" % (out, n))) if os.path.exists("%s/detect%s.json" % (out, n)) else {}
m2 = {"property": cid, "breaks": m.get("breaks"), "needs_to_manifest": m.get("needs"), "files": m.get("files"),
      "origin": "fresh sub-agent given only the property text and a scratch worktree",
      "confirmed_by": {"ran": "tools/confirm_seed.py %s %s (demo without patch, demo with patch, whole suite with patch, in the scratch worktree)" % (cid, n),
                       "demo_with_patch": conf["demo_runs"][0], "demo_without_patch": conf["demo_runs"][1],
                       "suite_with_patch": {"exit": conf["suite_exit"], "ok_binaries": conf["suite_ok_binaries"], "failed_binaries": conf["suite_failed_binaries"]},
                       "confirmed": conf["confirmed"]},
      "detection_when_first_run": {p: {"exit": r["exit"], "violations": len(r["violations"]), "first_failed_obligation": (r["failed"] + [""])[0]} for p, r in det.items()}}
json.dump(m2, open(dst + "/meta.json", "w"), indent=1)
print(dst, "detected" if any(r["exit"] == 1 for r in det.values()) else "MISSED")
