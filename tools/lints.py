#!/usr/bin/env python3
"""Syntactic premises of the rewrite rules (DESIGN.md section 4.2), checked on /repo's current text.
A failing premise makes the property UNDECIDED (exit 2): the proof no longer speaks about the code.
usage (as a module): lints.run(property, repo) -> list of failure strings"""
import os, re


def strip_comments(s):
    s = re.sub(r"/\*.*?\*/", lambda m: "\n" * m.group(0).count("\n"), s, flags=re.S)
    return re.sub(r"//[^\n]*", "", s)


def fn_span(src, name):
    m = re.search(r"fn\s+%s\b[^{;]*\{" % name, src)
    if not m:
        return None
    depth, i = 1, m.end()
    while depth and i < len(src):
        depth += {"{": 1, "}": -1}.get(src[i], 0)
        i += 1
    return (m.start(), i)


def lint_r4_lock(repo):
    """R4: every use of the shared `state` field of the batching channel is an acquisition of its mutex: `.lock()` or
    `.try_lock()` (both are modelled by the lock shim of specs/_shared/batcher_types.rs: lock always yields the state,
    try_lock may fail) - except inside `Receiver::exec`, whose critical sections are elided site by site (`.lock()` only)."""
    out = []
    for f in ["batcher/src/lib.rs", "batcher/src/sync.rs", "batcher/src/tokio.rs"]:
        p = os.path.join(repo, f)
        if not os.path.exists(p):
            continue
        src = strip_comments(open(p).read())
        exec_span = fn_span(src, "exec") if f.endswith("lib.rs") else None
        for m in re.finditer(r"shared\s*\.\s*state\b", src):
            rest = src[m.end():m.end() + 40]
            in_exec = exec_span and exec_span[0] <= m.start() < exec_span[1]
            ok = re.match(r"\s*\.\s*lock\s*\(\s*\)", rest) or (not in_exec and re.match(r"\s*\.\s*try_lock\s*\(\s*\)", rest))
            if not ok:
                # the struct field declaration `state: Mutex<..>` does not match `shared.state`
                out.append("R4 premise: %s:%d uses shared.state without .lock()%s" % (f, src.count("\n", 0, m.start()) + 1, "" if in_exec else " / .try_lock()"))
    src = strip_comments(open(os.path.join(repo, "batcher/src/lib.rs")).read())
    # inside `Receiver::exec` every `.lock()` is rewritten into an acquisition of the channel state (batcher_receiver.vx,
    # `replace-each R4 mcall lock`): it must not be a lock of some other mutex
    es = fn_span(src, "exec")
    if es:
        for m in re.finditer(r"\.\s*lock\s*\(\s*\)", src[es[0]:es[1]]):
            before = src[es[0]:es[0] + m.start()]
            if not re.search(r"shared\s*\.\s*state\s*$", before):
                out.append("R4 premise: batcher/src/lib.rs:%d `.lock()` inside Receiver::exec on something other than self.shared.state" % (src.count("\n", 0, es[0] + m.start()) + 1))
    if not re.search(r"state\s*:\s*Mutex\s*<\s*State\s*<", src):
        out.append("R4 premise: batcher/src/lib.rs: the shared state is no longer a `Mutex<State<..>>` field")
    return out


def lint_r15_tls(repo):
    """R15: the thread-local ACTIVE_TRACEPARENT is named only in its definition and in the two accessor functions."""
    f = "traceparent/src/lib.rs"
    src = strip_comments(open(os.path.join(repo, f)).read())
    out = []
    spans = []
    for name in ("set_active_traceparent", "get_active_traceparent"):
        m = re.search(r"fn\s+%s\b[^{]*\{" % name, src)
        if not m:
            out.append("R15 premise: accessor %s not found" % name)
            continue
        depth, i = 1, m.end()
        while depth and i < len(src):
            depth += {"{": 1, "}": -1}.get(src[i], 0)
            i += 1
        spans.append((m.start(), i))
    for m in re.finditer(r"\bACTIVE_TRACEPARENT\b", src):
        line = src.count("\n", 0, m.start()) + 1
        if re.match(r"\s*static\s+ACTIVE_TRACEPARENT", src[src.rfind("\n", 0, m.start()) + 1:m.end() + 1]):
            continue
        if not any(a <= m.start() < b for a, b in spans):
            out.append("R15 premise: %s:%d names ACTIVE_TRACEPARENT outside the two accessor functions" % (f, line))
    return out


def lint_r10_version(repo):
    """R10 (traceparent_parse): the version check that the unit restates is still `let b"00" = &bytes[0..2] else { return Err }`."""
    f = "traceparent/src/lib.rs"
    src = strip_comments(open(os.path.join(repo, f)).read())
    m = re.search(r"fn\s+try_from_str\b[^{]*\{", src)
    if not m:
        return ["R10 premise: %s: fn try_from_str not found" % f]
    body = src[m.end():m.end() + 4000]
    out = []
    if not re.search(r"let\s+version\s*=\s*&\s*bytes\s*\[\s*0\s*\.\.\s*2\s*\]\s*;", body):
        out.append("R10 premise: %s: `let version = &bytes[0..2];` not found in try_from_str" % f)
    if not re.search(r'let\s+b"00"\s*=\s*version\s+else\s*\{\s*return\s+Err', body):
        out.append('R10 premise: %s: `let b"00" = version else { return Err(..) }` not found in try_from_str' % f)
    return out


LINTS = {"C06": [lint_r4_lock], "C07": [lint_r4_lock], "C08": [lint_r4_lock], "C09": [lint_r4_lock], "C18": [lint_r15_tls, lint_r10_version], "C15": [lint_r10_version]}


def run(prop, repo):
    out = []
    for fn in LINTS.get(prop, []):
        try:
            out += fn(repo)
        except Exception as e:  # a lint that cannot read its file is a lost premise too
            out.append("%s: %s" % (fn.__name__, e))
    return out


if __name__ == "__main__":
    import sys
    for p in sorted(LINTS):
        print(p, run(p, sys.argv[1] if len(sys.argv) > 1 else "/repo"))
