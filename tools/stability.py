#!/usr/bin/env python3
"""Proof stability sweep: re-verify every generated Verus unit under several Z3 random seeds and at a fraction of its
rlimit. A unit that fails under some seed is brittle (a later harmless edit could make it time out).
usage: stability.py [seeds=5] [rlimit_factor=0.5]"""
import glob, json, os, re, subprocess, sys, concurrent.futures as cf
V = os.path.dirname(os.path.dirname(os.path.abspath(__file__)))
seeds = int(sys.argv[1]) if len(sys.argv) > 1 else 5
factor = float(sys.argv[2]) if len(sys.argv) > 2 else 0.5
units = []
for p in sorted(glob.glob(os.path.join(V, "specs", "*.vx"))):
    name = os.path.basename(p)[:-3]
    rl = 100
    for l in open(p):
        m = re.match(r"\s*//@rlimit\s+(\d+)", l)
        if m:
            rl = int(m.group(1))
    units.append((name, rl))


def one(args):
    name, rl, seed = args
    rs = os.path.join(V, ".build", "v", name + ".rs")
    if not os.path.exists(rs):
        return (name, seed, "no-file", 0)
    r = subprocess.run(["verus", rs, "--rlimit", str(max(5, int(rl * factor))), "--smt-option", "smt.random_seed=%d" % seed, "--num-threads", "2",
                        "--output-json", "--time"], stdout=subprocess.PIPE, stderr=subprocess.PIPE, text=True, cwd=os.path.join(V, ".build", "v"))
    try:
        j = json.loads(r.stdout)
        vr = j["verification-results"]
        ok = vr["errors"] == 0 and vr["success"]
        t = j["times-ms"]["smt"]["total"] / 1000
    except Exception:
        ok, t = False, 0
    msg = "ok" if ok else ("rlimit" if "rlimit" in r.stderr else "FAIL")
    return (name, seed, msg, t)


jobs = [(n, rl, s) for n, rl in units for s in range(1, seeds + 1)]
bad = {}
with cf.ThreadPoolExecutor(max_workers=7) as ex:
    for name, seed, msg, t in ex.map(one, jobs):
        if msg != "ok":
            bad.setdefault(name, []).append((seed, msg))
for n, rl in units:
    print("%-32s rlimit %3d -> %s" % (n, rl, "stable" if n not in bad else "UNSTABLE %s" % bad[n]))
