#!/usr/bin/env python3
"""Regenerates the table of seeded changes in DESIGN.md (between the SEEDTABLE markers) from seeded/*/meta.json and detect.json."""
import glob, json, os, re
V = os.path.dirname(os.path.dirname(os.path.abspath(__file__)))
rows = []
for d in sorted(glob.glob(os.path.join(V, "seeded", "C*-*"))):
    sid = os.path.basename(d)
    m = json.load(open(os.path.join(d, "meta.json")))
    first = m.get("detection_when_first_run", {})
    now = json.load(open(os.path.join(d, "detect.json"))) if os.path.exists(os.path.join(d, "detect.json")) else None
    def verdict(x):
        if not x:
            return "-"
        # detected = exit 1 WITH a VIOLATION line (a driver crash also exits 1 and is not a detection)
        det = any(r["exit"] == 1 and (r.get("violation_lines") or r.get("violations") or "violation_lines" not in r and "violations" not in r) for r in x.values())
        ex = [r["exit"] for r in x.values()]
        return "detected" if det else ("undecided (exit 2)" if 2 in ex else ("driver error" if 1 in ex else "missed"))
    ob = ""
    src = now or first
    for p, r in src.items():
        f = r.get("failed_obligations") or ([r.get("first_failed_obligation")] if r.get("first_failed_obligation") else [])
        if f and f[0]:
            ob = f[0].replace("failed obligation ", "").split(":")[0:3]
            ob = ":".join(ob)[:90]
            break
    what = re.sub(r"\s+", " ", (m.get("breaks") or ""))[:150]
    rows.append("| %s | %s | %s | %s | %s |" % (sid, what.replace("|", "/"), verdict(first), verdict(now) if now else verdict(first), ob.replace("|", "/")))
table = "| seed | what it breaks (from the seeding agent) | first run | now | failing obligation |\n|---|---|---|---|---|\n" + "\n".join(rows)
p = os.path.join(V, "DESIGN.md")
s = open(p).read()
a, b = "<!-- SEEDTABLE:BEGIN -->", "<!-- SEEDTABLE:END -->"
if a in s:
    s = s[:s.index(a) + len(a)] + "\n" + table + "\n" + s[s.index(b):]
    open(p, "w").write(s)
n_det = sum(1 for r in rows if "| detected |" in r.split("|", 4)[-1][:40] or r.count("detected") >= 1 and r.split("|")[4].strip() == "detected")
print(len(rows), "seeds;", sum(1 for r in rows if r.split("|")[4].strip() == "detected"), "detected now")
